//! No-op stand-ins for Kani's attribute macros (native replay only).
use proc_macro::TokenStream;

#[proc_macro_attribute]
pub fn proof(_attr: TokenStream, item: TokenStream) -> TokenStream {
    item
}
#[proc_macro_attribute]
pub fn unwind(_attr: TokenStream, item: TokenStream) -> TokenStream {
    item
}
#[proc_macro_attribute]
pub fn stub(_attr: TokenStream, item: TokenStream) -> TokenStream {
    item
}
#[proc_macro_attribute]
pub fn solver(_attr: TokenStream, item: TokenStream) -> TokenStream {
    item
}
