//! verif_replay <module::harness> <vals file>
//! exit 0: the harness ran to completion natively (not reproduced)
//! exit 3: a panic / failed assertion (reproduced) — message printed
//! exit 4: an assumption of the harness does not hold for the assignment (not applicable)
include!(concat!(env!("VERIF_GEN_DIR"), "/replay_dispatch.rs"));

fn main() {
    let args: Vec<String> = std::env::args().collect();
    let text = std::fs::read_to_string(&args[2]).expect("vals file");
    let vals: Vec<Vec<u8>> = text
        .lines()
        .map(|l| l.split_whitespace().map(|b| b.parse::<u8>().expect("byte")).collect())
        .collect();
    kani::load(vals);
    let name = args[1].clone();
    std::panic::set_hook(Box::new(|info| {
        if info.payload().downcast_ref::<kani::AssumeViolated>().is_none() {
            println!("REPLAY-PANIC: {}", info);
        }
    }));
    let r = std::panic::catch_unwind(move || dispatch(&name));
    match r {
        Ok(true) => {
            println!("REPLAY-OK: harness completed without failure");
            std::process::exit(0)
        }
        Ok(false) => {
            println!("REPLAY-ERROR: unknown harness");
            std::process::exit(2)
        }
        Err(e) => {
            if e.downcast_ref::<kani::AssumeViolated>().is_some() {
                println!("REPLAY-ASSUME: an assumption of the harness is violated by this assignment");
                std::process::exit(4)
            }
            std::process::exit(3)
        }
    }
}
