//! Minimal native stand-in for the kani API, used only to replay solver counterexamples:
//! `any()` returns the next byte vector of the concrete playback (little endian), `assume(false)`
//! ends the replay as "assumption violated" (the assignment does not apply natively).
pub use kani_shim_macros::{proof, solver, stub, unwind};
use std::cell::RefCell;
use std::collections::VecDeque;

thread_local! {
    static VALS: RefCell<VecDeque<Vec<u8>>> = RefCell::new(VecDeque::new());
}

pub struct AssumeViolated;

pub fn load(vals: Vec<Vec<u8>>) {
    VALS.with(|v| *v.borrow_mut() = vals.into());
}

fn next(n: usize) -> Vec<u8> {
    let mut b = VALS.with(|v| v.borrow_mut().pop_front()).unwrap_or_default();
    b.resize(n, 0);
    b
}

pub trait Arbitrary: Sized {
    fn any() -> Self;
}

macro_rules! int_arb {
    ($($t:ty),*) => {$(
        impl Arbitrary for $t {
            fn any() -> Self {
                let b = next(core::mem::size_of::<$t>());
                <$t>::from_le_bytes(b.try_into().unwrap())
            }
        }
    )*};
}
int_arb!(u8, u16, u32, u64, u128, usize, i8, i16, i32, i64, isize);

impl Arbitrary for bool {
    fn any() -> Self {
        next(1)[0] & 1 == 1
    }
}
impl Arbitrary for f64 {
    fn any() -> Self {
        f64::from_bits(u64::from_le_bytes(next(8).try_into().unwrap()))
    }
}
impl Arbitrary for f32 {
    fn any() -> Self {
        f32::from_bits(u32::from_le_bytes(next(4).try_into().unwrap()))
    }
}
impl Arbitrary for char {
    fn any() -> Self {
        let v = u32::from_le_bytes(next(4).try_into().unwrap());
        match char::from_u32(v) {
            Some(c) => c,
            None => std::panic::panic_any(AssumeViolated),
        }
    }
}
impl<T: Arbitrary, const N: usize> Arbitrary for [T; N] {
    fn any() -> Self {
        core::array::from_fn(|_| T::any())
    }
}

pub fn any<T: Arbitrary>() -> T {
    T::any()
}

pub fn assume(cond: bool) {
    if !cond {
        std::panic::panic_any(AssumeViolated);
    }
}

#[macro_export]
macro_rules! cover {
    () => {};
    ($cond:expr $(,)?) => {{
        let _ = $cond;
    }};
    ($cond:expr, $msg:expr $(,)?) => {{
        let _ = $cond;
    }};
}
