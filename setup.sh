#!/bin/sh
# Offline setup: nothing to fetch; verify the toolchain is present and the registry loads.
set -e
cd "$(dirname "$0")"
export CARGO_NET_OFFLINE=true
cargo kani --version
./check --list >/dev/null
echo setup ok
