#!/usr/bin/env python3
"""Evaluate one seeded change against the checks.

  seed_eval.py <dir with patch.diff + demo.rs [+ notes.md]> <seed id> <property it targets> [--checks C05,C07] [--tier quick|thorough]

1. scratch worktree of /repo's HEAD; confirm: patch applies, the existing suite passes with it,
   the demonstration fails with it and passes without it;
2. run the registered checks of the given properties against the patched worktree (VERIF_REPO);
3. write /verif/seeded/<id>/{patch.diff, demo.rs, notes.md, meta.json}; remove the worktree.
"""
import json, os, re, shutil, subprocess, sys, time

VERIF = os.path.dirname(os.path.dirname(os.path.abspath(__file__)))


def sh(cmd, cwd=None, env=None, timeout=3600):
    p = subprocess.run(cmd, shell=True, cwd=cwd, env=env, capture_output=True, text=True, timeout=timeout)
    return p.returncode, p.stdout + p.stderr


def suite(wt, env, only=None):
    cmd = "cargo test --workspace --no-fail-fast --offline" + (f" --test {only}" if only else "")
    rc, out = sh(cmd, cwd=wt, env=env)
    passed = sum(int(m.group(1)) for m in re.finditer(r"test result: \w+\. (\d+) passed", out))
    failed = sum(int(m.group(1)) for m in re.finditer(r"test result: \w+\. \d+ passed; (\d+) failed", out))
    return rc, passed, failed, out


def main():
    src, sid, prop = sys.argv[1], sys.argv[2], sys.argv[3]
    checks = [prop]
    tier = "quick"
    only = ""
    base = "HEAD"
    args = sys.argv[4:]
    while args:
        a = args.pop(0)
        if a == "--checks":
            checks = args.pop(0).split(",")
        elif a == "--tier":
            tier = args.pop(0)
        elif a == "--base":
            base = args.pop(0)
        elif a == "--no-checks":
            checks = []
        elif a == "--only":
            only = " ".join("--only " + h for h in args.pop(0).split(","))
    out_dir = os.path.join(VERIF, "seeded", sid)
    os.makedirs(out_dir, exist_ok=True)
    for fn in ("patch.diff", "demo.rs", "notes.md"):
        if os.path.exists(os.path.join(src, fn)) and os.path.abspath(src) != os.path.abspath(out_dir):
            shutil.copy(os.path.join(src, fn), os.path.join(out_dir, fn))
    wt = f"/tmp/ev_{sid}"
    sh(f"git -C /repo worktree remove --force {wt}")
    shutil.rmtree(wt, ignore_errors=True)
    rc, o = sh(f"git -C /repo worktree add --detach {wt} {base}")
    assert rc == 0, o
    env = dict(os.environ, CARGO_NET_OFFLINE="true", CARGO_TARGET_DIR=f"{wt}/target")
    meta = {"id": sid, "breaks_property": prop, "base_commit": sh(f"git -C /repo rev-parse {base}")[1].strip(), "ran": []}
    try:
        shutil.copy(os.path.join(out_dir, "demo.rs"), os.path.join(wt, "tests", "zz_demo.rs"))
        rc, p0, f0, o0 = suite(wt, env, "zz_demo")
        meta["demo_without_patch"] = {"passed": p0, "failed": f0}
        meta["ran"].append("cargo test --test zz_demo (clean worktree)")
        rc, o = sh(f"git apply {out_dir}/patch.diff", cwd=wt)
        meta["patch_applies"] = rc == 0
        if rc != 0:
            meta["apply_error"] = o[-500:]
            meta["confirmed"] = False
            return meta
        rc, p1, f1, o1 = suite(wt, env, "zz_demo")
        meta["demo_with_patch"] = {"passed": p1, "failed": f1, "tail": o1[-600:]}
        os.remove(os.path.join(wt, "tests", "zz_demo.rs"))
        rc, ps, fs, os_ = suite(wt, env)
        meta["existing_suite_with_patch"] = {"passed": ps, "failed": fs}
        meta["ran"] += ["git apply patch.diff", "cargo test --test zz_demo (patched)", "cargo test --workspace --no-fail-fast --offline (patched, demo removed)"]
        meta["confirmed"] = bool(f0 == 0 and p0 > 0 and f1 > 0 and fs == 0 and ps == 150)
        shutil.rmtree(f"{wt}/target", ignore_errors=True)
        notes = os.path.join(out_dir, "notes.md")
        meta["needs_to_manifest"] = open(notes).read()[:1500] if os.path.exists(notes) else ""
        results = {}
        if meta["confirmed"]:
            for c in checks:
                t0 = time.time()
                env2 = dict(os.environ, VERIF_REPO=wt, VERIF_REPLAY_DIR=os.path.join(out_dir, "replays"))
                rc, o = sh(f"./check {c} --tier {tier} --no-evidence {only}", cwd=VERIF, env=env2, timeout=4 * 3600)
                lines = [l for l in o.splitlines() if l.startswith(("VIOLATION", "INCONCLUSIVE", "KNOWN-FINDING", "  harness=", "=="))]
                results[c] = {"rc": rc, "wall_s": round(time.time() - t0), "tier": tier, "lines": lines[:40]}
                meta["ran"].append(f"VERIF_REPO={wt} ./check {c} --tier {tier} {only}".strip())
        meta["checks"] = results
        meta["detected_by"] = sorted(c for c, r in results.items() if r["rc"] == 1)
        return meta
    finally:
        json.dump(meta, open(os.path.join(out_dir, "meta.json"), "w"), indent=1)
        sh(f"git -C /repo worktree remove --force {wt}")
        shutil.rmtree(wt, ignore_errors=True)
        print(json.dumps({k: meta.get(k) for k in ("id", "confirmed", "detected_by")}))
        for c, r in meta.get("checks", {}).items():
            print(" ", c, "rc=", r["rc"], r["wall_s"], "s")
            for l in r["lines"]:
                if l.startswith(("VIOLATION", "INCONCLUSIVE", "  harness=")):
                    print("    ", l[:260])


if __name__ == "__main__":
    main()
