"""Harness registry: which Kani harnesses decide which property, in which tier, with which
bounds. Times are wall seconds measured on the unchanged tree (16 cores, CaDiCaL)."""

SER = ["a5::core::serialization::serialize", "a5::core::serialization::deserialize",
       "a5::core::serialization::get_resolution", "a5::core::origin::get_origins (generate_origins)"]
VALID = "valid cell description: face<12, quintant<5, s<4^(r-1) (r>=2) else s=0; quintant=0 at r<=0; face=0 at r=-1"
FMT_STUB = "alloc::fmt::format stubbed (error *messages* are empty strings; Ok/Err shape untouched)"

Q, T = "quick", "thorough"


def H(name, module, tiers, statement, **kw):
    d = dict(name=name, module=module, tiers=tiers, statement=statement)
    d.update(kw)
    return d


ORACLES = [
    H("oracle_res_equiv", "oracles", [Q, T], "∀ u64 x: loop-free res_stub(x) = get_resolution(x) ∈ −1..29",
      functions=["a5::core::serialization::get_resolution"], bounds="none: all 2^64 inputs, loop (≤31) fully unwound",
      exhaustive=True, timeout=300, mem_gb=4),
    H("oracle_valid_equiv", "oracles", [Q, T], "∀ u64 x: spec_valid(x) ⇔ deserialize(x) Ok ∧ serialize(·) = x",
      functions=SER, bounds="none: all 2^64 inputs", exhaustive=True, timeout=900, mem_gb=8),
    H("oracle_covers_equiv", "oracles", [Q, T],
      "∀ canonical x,y: spec_covers(x,y) ⇔ res x ≤ res y ∧ cell_to_parent(y,res x) = x",
      functions=SER + ["a5::core::serialization::cell_to_parent"], bounds="none: all pairs of canonical IDs",
      exhaustive=True, timeout=900, mem_gb=8),
]


def oracle(name):
    return [h for h in ORACLES if h["name"] == name][0]


PROPERTIES = {}

PROPERTIES["C05"] = dict(
    explanation="codec round trip, documented layout against a frozen first-quintant table, canonical form and "
                "injectivity over all 2^64 IDs / all valid cell descriptions; hex format over all u64, hex parse "
                "against a reference parser over all ASCII strings ≤ 18 bytes and all 2-scalar Unicode strings",
    assumptions=[VALID, FMT_STUB],
    trusted_base=["frozen first_quintant table /verif/kani/src/common.rs::QF (generated once from v0.6.2)",
                  "reference hex parser in c05.rs (validated natively on the repository's hex fixtures)"],
    outside_claim=["hex strings longer than 18 bytes (the digit loop is std's from_str_radix)",
                   "non-UTF-8 input (not constructible as &str)"],
    harnesses=[
        oracle("oracle_res_equiv"), oracle("oracle_valid_equiv"),
        H("c05_roundtrip", "c05", [Q, T], "∀ valid cell(−1..29): serialize Ok, get_resolution(id)=r, deserialize(id)=cell",
          functions=SER, bounds="none beyond machine width; loop ≤31 fully unwound", exhaustive=True, assumes=[VALID]),
        H("c05_layout", "c05", [Q, T],
          "∀ valid cell: id = face<<58|1<<57 (r=0); (5·face+(q−fq[face]) mod 5)<<58|1<<56 (r=1); code<<58|s<<(58−2L)|1<<(57−2L), L=r−1; zeros below marker",
          functions=SER, bounds="none", exhaustive=True, assumes=[VALID], deps=["oracle_valid_equiv"]),
        H("c05_decode_total", "c05", [Q, T],
          "∀ u64 x: deserialize(x) is Err (then x is not canonical) or a valid cell whose re-encoding is canonical and decodes to the same cell; canonical x re-encodes to x",
          functions=SER, bounds="none: all 2^64 inputs", exhaustive=True, deps=["oracle_valid_equiv"]),
        H("c05_injective", "c05", [Q, T], "∀ two different valid cells: different IDs", functions=SER, bounds="none",
          exhaustive=True, assumes=[VALID]),
        H("c05_hex_fmt", "c05", [Q, T],
          "∀ u64 v: u64_to_hex(v) is 1..16 bytes of [0-9a-f], no leading 0 unless length 1, base-16 fold = v",
          functions=["a5::core::hex::u64_to_hex", "core::fmt LowerHex (real, not stubbed)"], bounds="none: all 2^64 values",
          exhaustive=True),
        H("c05_hex_parse18", "c05", [Q, T],
          "∀ ASCII strings ≤ 18 bytes: hex_to_u64 = reference parser (optional +, 0-9a-fA-F, Err on empty/lone +/non-digit/≥2^64)",
          functions=["a5::core::hex::hex_to_u64", "core::num from_str_radix"], bounds="string length ≤ 18 bytes",
          assumes=["bytes < 128"]),
        H("c05_hex_parse_utf8", "c05", [Q, T],
          "∀ strings of 2 arbitrary Unicode scalar values: any non-ASCII char ⇒ Err; ASCII ⇒ reference parser",
          functions=["a5::core::hex::hex_to_u64"], bounds="2 scalar values (2–8 bytes)"),
    ],
)

R = ("statement about values of sin/cos/tan/atan/atan2/acos/asin/sqrt compositions on symbolic doubles with 1e-9..1e-14 tolerances; "
     "Kani/CBMC model these libm functions as unconstrained nondeterministic values (measured), no installed solver decides nonlinear "
     "transcendental float arithmetic, and a real-arithmetic relaxation would not be the code's semantics")
NOT_APPLICABLE = {
    "C01": "containment of the looked-up cell is decided by forward projection + contains_point on doubles: " + R + "; its integer corollaries (requested resolution, out-of-range resolutions) are decided under C14",
    "C02": "centre→cell round trip passes through inverse and forward projection and both authalic series: " + R + "; discrete factors are decided under C05/C17/C18",
    "C03": "disjointness/coverage of projected pentagons across face seams: " + R + "; the within-quintant combinatorial part is C17",
    "C11": "ring orientation, latitude range, longitude window are values of the unprojected ring: " + R,
    "C12": "overlap/area/distance between child and parent polygons on the sphere: " + R,
    "C13": "schedules/histories: Kani executes single-threaded only (no threads, thread_local!, OnceLock races), and the history half compares values produced by nondeterministic trig: " + R,
    "C15": "invertibility of the polyhedral projection: " + R,
    "C16": "area preservation of the polyhedral projection: " + R,
    "C19": "authalic series inverse/monotone/closed-form agreement are Clenshaw sums of sin/cos: " + R,
}

MANIFEST_TEXT = {}
MANIFEST_TEXT["C05"] = dict(
    level="bounded model checking of the compiled codec: each harness is one SAT query over all 2^64 IDs / all valid cell descriptions / all ASCII strings ≤ 18 bytes; within those bounds a pass is a proof for every input, which sampling cannot give (the interesting inputs are single bit patterns)",
    design_ref="DESIGN.md §5 C05",
    note="trusted: Kani/CBMC/CaDiCaL, frozen first-quintant table, reference hex parser; alloc::fmt::format stubbed in codec harnesses (not in c05_hex_fmt); strings > 18 bytes outside the claim",
    technique="Kani/CBMC bounded model checking (SAT) of the real serialize/deserialize/hex code over symbolic inputs",
)
