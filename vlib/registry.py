"""Harness registry: which Kani harnesses decide which property, in which tier, with which
bounds. Times are wall seconds measured on the unchanged tree (16 cores, CaDiCaL)."""

SER = ["a5::core::serialization::serialize", "a5::core::serialization::deserialize",
       "a5::core::serialization::get_resolution", "a5::core::origin::get_origins (generate_origins)"]
VALID = "valid cell description: face<12, quintant<5, s<4^(r-1) (r>=2) else s=0; quintant=0 at r<=0; face=0 at r=-1"
FMT_STUB = "alloc::fmt::format stubbed (error *messages* are empty strings; Ok/Err shape untouched)"

Q, T = "quick", "thorough"


def H(name, module, tiers, statement, **kw):
    d = dict(name=name, module=module, tiers=tiers, statement=statement)
    d.update(kw)
    return d


ORACLES = [
    H("oracle_res_equiv", "oracles", [Q, T], "∀ u64 x: loop-free res_stub(x) = get_resolution(x) ∈ −1..29",
      functions=["a5::core::serialization::get_resolution"], bounds="none: all 2^64 inputs, loop (≤31) fully unwound",
      exhaustive=True, timeout=300, mem_gb=4),
    H("oracle_valid_equiv", "oracles", [Q, T], "∀ u64 x: spec_valid(x) ⇔ deserialize(x) Ok ∧ serialize(·) = x",
      functions=SER, bounds="none: all 2^64 inputs", exhaustive=True, timeout=900, mem_gb=8),
    H("oracle_covers_equiv", "oracles", [Q, T],
      "∀ canonical x,y: spec_covers(x,y) ⇔ res x ≤ res y ∧ cell_to_parent(y,res x) = x",
      functions=SER + ["a5::core::serialization::cell_to_parent"], bounds="none: all pairs of canonical IDs",
      exhaustive=True, timeout=900, mem_gb=8),
]


def oracle(name):
    return [h for h in ORACLES if h["name"] == name][0]


PROPERTIES = {}

PROPERTIES["C05"] = dict(
    explanation="codec round trip, documented layout against a frozen first-quintant table, canonical form and "
                "injectivity over all 2^64 IDs / all valid cell descriptions; hex format over all u64, hex parse "
                "against a reference parser over all ASCII strings ≤ 18 bytes and all 2-scalar Unicode strings",
    assumptions=[VALID, FMT_STUB],
    trusted_base=["frozen first_quintant table /verif/kani/src/common.rs::QF (generated once from v0.6.2)",
                  "reference hex parser in c05.rs (validated natively on the repository's hex fixtures)"],
    outside_claim=["hex strings longer than 18 bytes (the digit loop is std's from_str_radix)",
                   "non-UTF-8 input (not constructible as &str)"],
    native_prepare=[dict(name="fixtures", args=["fixtures"], violation_on_fail=False)],
    harnesses=[
        oracle("oracle_res_equiv"), oracle("oracle_valid_equiv"),
        H("c05_roundtrip", "c05", [Q, T], "∀ valid cell(−1..29): serialize Ok, get_resolution(id)=r, deserialize(id)=cell",
          functions=SER, bounds="none beyond machine width; loop ≤31 fully unwound", exhaustive=True, assumes=[VALID]),
        H("c05_layout", "c05", [Q, T],
          "∀ valid cell: id = face<<58|1<<57 (r=0); (5·face+(q−fq[face]) mod 5)<<58|1<<56 (r=1); code<<58|s<<(58−2L)|1<<(57−2L), L=r−1; zeros below marker",
          functions=SER, bounds="none", exhaustive=True, assumes=[VALID], deps=["oracle_valid_equiv"]),
        H("c05_decode_total", "c05", [Q, T],
          "∀ u64 x: deserialize(x) is Err (then x is not canonical) or a valid cell whose re-encoding is canonical and decodes to the same cell; canonical x re-encodes to x",
          functions=SER, bounds="none: all 2^64 inputs", exhaustive=True, deps=["oracle_valid_equiv"]),
        H("c05_injective", "c05", [Q, T], "∀ two different valid cells: different IDs", functions=SER, bounds="none",
          exhaustive=True, assumes=[VALID]),
        H("c05_hex_fmt", "c05", [Q, T],
          "∀ u64 v: u64_to_hex(v) is 1..16 bytes of [0-9a-f], no leading 0 unless length 1, base-16 fold = v",
          functions=["a5::core::hex::u64_to_hex", "core::fmt LowerHex (real, not stubbed)"], bounds="none: all 2^64 values",
          exhaustive=True),
        H("c05_hex_parse18", "c05", [Q, T],
          "∀ ASCII strings ≤ 18 bytes: hex_to_u64 = reference parser (optional +, 0-9a-fA-F, Err on empty/lone +/non-digit/≥2^64)",
          functions=["a5::core::hex::hex_to_u64", "core::num from_str_radix"], bounds="string length ≤ 18 bytes",
          assumes=["bytes < 128"]),
        H("c05_hex_parse_utf8", "c05", [Q, T],
          "∀ strings of 2 arbitrary Unicode scalar values: any non-ASCII char ⇒ Err; ASCII ⇒ reference parser",
          functions=["a5::core::hex::hex_to_u64"], bounds="2 scalar values (2–8 bytes)"),
    ],
)

R = ("statement about values of sin/cos/tan/atan/atan2/acos/asin/sqrt compositions on symbolic doubles with 1e-9..1e-14 tolerances; "
     "Kani/CBMC model these libm functions as unconstrained nondeterministic values (measured), no installed solver decides nonlinear "
     "transcendental float arithmetic, and a real-arithmetic relaxation would not be the code's semantics")
NOT_APPLICABLE = {
    "C01": "containment of the looked-up cell is decided by forward projection + contains_point on doubles: " + R + "; its integer corollaries (requested resolution, out-of-range resolutions) are decided under C14",
    "C02": "centre→cell round trip passes through inverse and forward projection and both authalic series: " + R + "; discrete factors are decided under C05/C17/C18",
    "C03": "disjointness/coverage of projected pentagons across face seams: " + R + "; the within-quintant combinatorial part is C17",
    "C11": "ring orientation, latitude range, longitude window are values of the unprojected ring: " + R,
    "C12": "overlap/area/distance between child and parent polygons on the sphere: " + R,
    "C13": "schedules/histories: Kani executes single-threaded only (no threads, thread_local!, OnceLock races), and the history half compares values produced by nondeterministic trig: " + R,
    "C15": "invertibility of the polyhedral projection: " + R,
    "C16": "area preservation of the polyhedral projection: " + R,
    "C19": "authalic series inverse/monotone/closed-form agreement are Clenshaw sums of sin/cos: " + R,
}

MANIFEST_TEXT = {}
MANIFEST_TEXT["C05"] = dict(
    level="bounded model checking of the compiled codec: each harness is one SAT query over all 2^64 IDs / all valid cell descriptions / all ASCII strings ≤ 18 bytes; within those bounds a pass is a proof for every input, which sampling cannot give (the interesting inputs are single bit patterns)",
    design_ref="DESIGN.md §5 C05",
    note="trusted: Kani/CBMC/CaDiCaL, frozen first-quintant table, reference hex parser; alloc::fmt::format stubbed in codec harnesses (not in c05_hex_fmt); strings > 18 bytes outside the claim",
    technique="Kani/CBMC bounded model checking (SAT) of the real serialize/deserialize/hex code over symbolic inputs",
)

# ------------------------------------------------------------------------------------------ C07
HIER = SER + ["a5::core::serialization::cell_to_parent", "a5::core::serialization::cell_to_children"]
CH = "serialization16cell_to_children"


def ch_unwind(faces, quints, inner):
    """cell_to_children loops by ordinal: .0 faces, .1 quintants, .2 curve children (bound = iterations+1)."""
    # ranks are in source order (outermost first); bound = iterations + 1
    return [(CH, 0, faces + 1), (CH, 1, quints + 1), (CH, 2, inner + 1)]


PROPERTIES["C07"] = dict(
    explanation="ancestor composition over all cells × all level pairs; children one level down (count, distinct, resolution, ancestry, canonical, order, = bit-level child rule) "
                "for all cells of resolution ≥ 1; the world cell's 12 and 60; every cell of resolution ≥ 2 is listed exactly under its parent",
    assumptions=[VALID, FMT_STUB],
    trusted_base=["bit-level oracle spec_valid, proved equal to the real code by oracle_valid_equiv in the same run"],
    outside_claim=["per-call fan-out above 4 from a symbolic cell (12 and 60 from the concrete world cell are executed); two levels down in one call from a cell of symbolic level ≥ 2 and the children of a *base* cell (5, 20) ran out of memory (21–45 GB) and are not claimed by a dedicated harness (two levels down from a quintant cell, resolution 1 → 3, is decided in the thorough tier by c07_children_d2_r1) — the 60 quintants are checked under their base cells through c07_world, deeper levels follow from composition (c07_compose)"],
    harnesses=[
        oracle("oracle_valid_equiv"), oracle("oracle_res_equiv"), oracle("oracle_covers_equiv"),
        H("c07_compose", "c07", [Q, T], "∀ valid cell(0..29) c, ∀ −1≤b≤a≤r: parent(parent(c,a),b)=parent(c,b), res(parent(c,a))=a, canonical; default arg = r−1",
          functions=HIER, bounds="none", exhaustive=True, assumes=[VALID], deps=["oracle_valid_equiv"]),
        H("c07_fanout", "c07", [Q, T], "∀ −1≤p≤c≤29, c−p≤8: get_num_children(p,c) = ∏ apertures (12,5,4,…)",
          functions=["a5::core::cell_info::get_num_children", "a5::core::cell_info::get_num_cells"], bounds="c−p ≤ 8 (the property's 4^8 cap)"),
        H("c07_children_d1", "c07", [Q, T], "∀ valid cell(1..28): children(c,r+1): 4 entries, pairwise distinct (symbolic index pair), increasing, resolution r+1, parent=c, canonical; count = get_num_children",
          functions=HIER, bounds="fan-out 4; loops 1×1×4 (unwinding assertions on)", unwindset=ch_unwind(1, 1, 4), assumes=[VALID], deps=["oracle_valid_equiv"], timeout=1500, mem_gb=24),
        H("c07_children_d2_r1", "c07", [T], "∀ quintant cell (resolution 1, all faces × quintants), ∀ i<16: children(c,3) has 16 entries and [i] = spec_child(spec_child(c,i>>2),i&3) — the jump from the non-Hilbert levels into the curve in one call",
          functions=HIER, bounds="fan-out 16; loops 1×1×16 (unwinding assertions on); parent resolution 1", unwindset=ch_unwind(1, 1, 16), assumes=[VALID, "get_resolution ↦ res_stub"], deps=["oracle_res_equiv", "c07_children_d1"], timeout=2400, mem_gb=40, mem_est=20),
        H("c07_world", "c07", [Q, T], "world cell: 12 children at r=0, 60 at r=1: distinct, right resolution, canonical, parent = world / the right base cell; get_res0_cells agrees",
          functions=HIER + ["a5::core::serialization::get_res0_cells"], bounds="concrete input; fan-out 12 and 60 fully unwound", exhaustive=True, timeout=1500),
        H("c07_cover_hi", "c07", [Q, T], "∀ valid cell y, r≥3: y = children(parent(y))[s&3]", functions=HIER, bounds="none on y; loops 1×1×4",
          unwindset=ch_unwind(1, 1, 4), assumes=[VALID], timeout=1500),
        H("c07_cover_r2", "c07", [Q, T], "∀ valid cell y, r=2: y = children(parent(y))[s]", functions=HIER, bounds="loops 1×1×4",
          unwindset=ch_unwind(1, 1, 4), assumes=[VALID], timeout=1500),
    ],
)
MANIFEST_TEXT["C07"] = dict(
    level="bounded model checking of the compiled hierarchy functions: every statement is one SAT query over all valid cells (all faces, quintants, curve positions up to 2^56, all levels) with a symbolic pair of child indices; per-call fan-out is 4 from a symbolic cell, 12 and 60 from the concrete world cell; deeper levels by composition",
    design_ref="DESIGN.md §5 C07",
    note="trusted: Kani/CBMC/CaDiCaL; bit-level oracles are proved equal to the real codec in the same run; per-loop unwind bounds are checked by unwinding assertions; children of a base cell (5, 20) and two levels down in one call ran out of memory and are outside the claim",
    technique="Kani/CBMC bounded model checking (SAT) of the real cell_to_parent/cell_to_children over symbolic cells and symbolic child indices",
)

# ------------------------------------------------------------------------------------------ C20
ORD = HIER[:-1] + ["a5::core::serialization::get_stride", "a5::core::serialization::is_first_child"]
PROPERTIES["C20"] = dict(
    explanation="order/ancestor monotonicity, descendants ordering, subtree = contiguous interval, sibling adjacency over all pairs/quadruples of valid cells; descendants are symbolic cells (no depth bound)",
    assumptions=[VALID, FMT_STUB],
    trusted_base=[],
    outside_claim=[],
    harnesses=[
        H("c20_anc_monotone", "c20", [Q, T], "∀ a<b valid, same r≥2, ∀ L∈1..r: parent(a,L) ≤ parent(b,L)", functions=ORD, bounds="none", exhaustive=True, assumes=[VALID]),
        H("c20_desc_order", "c20", [Q, T], "∀ a<b same r≥2, ∀ valid da,db with parent(da,r)=a, parent(db,r)=b (any depth): da<db", functions=ORD, bounds="none (descendants symbolic)", exhaustive=True, assumes=[VALID]),
        H("c20_interval", "c20", [Q, T], "∀ valid c (r≥1), ∀ descendants d1,d2 of c, ∀ valid x (r≥1): d1≤x≤d2 ⇒ res x ≥ res c ∧ parent(x,res c)=c", functions=ORD, bounds="none", exhaustive=True, assumes=[VALID], timeout=1500),
        H("c20_sibling_gap", "c20", [Q, T], "∀ valid a<x same r≥2: x−a ≥ get_stride(r); consecutive positions exactly one stride apart; is_first_child(a) ⇔ s&3=0 (with/without hint)", functions=ORD, bounds="none", exhaustive=True, assumes=[VALID]),
        H("c20_lowres_siblings", "c20", [Q, T], "r∈{0,1}: is_first_child ⇔ face 0 / quintant code ≡ 0 mod 5; stride 1<<58; quintants of a face ≤ 4 strides apart", functions=ORD, bounds="none", exhaustive=True, assumes=[VALID]),
        H("c20_base_exception", "c20", [Q, T], "cover witness: a base-cell ID lies strictly between two quintant IDs of another face (the r≥1 restriction is necessary)", functions=SER, bounds="none", exhaustive=True),
    ],
)
MANIFEST_TEXT["C20"] = dict(
    level="bounded model checking of the compiled codec/hierarchy: each order statement is one SAT query over all pairs/quadruples of valid cells at all levels; descendants are symbolic cells so no depth bound applies",
    design_ref="DESIGN.md §5 C20",
    note="trusted: Kani/CBMC/CaDiCaL; alloc::fmt::format stubbed; validity predicate of the cell description assumed",
    technique="Kani/CBMC bounded model checking (SAT) of the real serialize/cell_to_parent/get_stride/is_first_child over symbolic cell tuples",
)

CMPF = "7compact7compact"


def cmp_unwind(n, passes=2):
    """compact loops in source order: rank 0 `while changed` (passes+1), rank 1 scan (n+1 iterations incl. exit),
    rank 2 sibling probe `for j in 1..expected` (≤ min(n,12)−1 iterations)."""
    return [(CMPF, 0, passes + 1), (CMPF, 1, n + 1), (CMPF, 2, min(n, 12) + 1)]


# ------------------------------------------------------------------------------------------ C14
LOOKUP_STUBS = ["a5::core::cell::lonlat_to_estimate ↦ any in-range estimate (nondeterministic)",
                "a5::core::cell::a5cell_contains_point ↦ constant Ok(1.0) (first probe hits)"]
LK = ["a5::core::cell::lonlat_to_cell", "a5::core::serialization::serialize"]
PARENT_MODEL = "cell_to_parent ↦ contract model spec_parent1 on canonical cells (proved equal to the real function by oracle_parent_equiv in the same run)"
COMPACT_STUBS = ["core::slice::sort::unstable::sort (back end of every sort_unstable* call) ↦ bounded insertion sort, ≤ 8 elements (asserted), same contract", "verif_set::HashSet in ASSUME_UNIQUE mode (inputs pairwise distinct)",
                 "get_resolution ↦ loop-free res_stub (proved equal on all 2^64 inputs by oracle_res_equiv)"]
PROPERTIES["C14"] = dict(
    explanation="every root-exported integer-surface function on every u64 / i32 / Option<i32>: no panic, no arithmetic/shift overflow, no OOB, "
                "termination within the bound; Ok results canonical and of the requested resolution; Err only when honest",
    assumptions=[FMT_STUB, "float leaves of lonlat_to_cell stubbed nondeterministically (named per harness)"],
    trusted_base=["bit-level oracles spec_valid/res_stub proved equal to the real code in the same run", "std HashSet/sort_unstable (compact prelude)"],
    outside_claim=["panics/NaN inside the float leaves themselves (projection, containment, normalize_longitudes)", "allocation failure",
                   "cell_to_lonlat / cell_to_boundary beyond deserialize (float leaves)", "lonlat_to_cell search loop with arbitrary hit/miss interleavings over 26 distinct estimates (only the first-probe-hits regime is encoded)",
                   "calls whose honest result exceeds 16 cells per input (property's own cap is 4^8)"],
    harnesses=[
        oracle("oracle_res_equiv"), oracle("oracle_valid_equiv"),
        H("c05_decode_total", "c05", [Q, T], "∀ u64: deserialize never panics; Ok ⇒ valid cell that re-encodes canonically", functions=SER, bounds="none", exhaustive=True, deps=["oracle_valid_equiv"]),
        H("c14_parent", "c14", [Q, T], "∀ u64 × ∀ Option<i32>: cell_to_parent never panics; Ok(y) ⇒ y canonical of the requested resolution; Err only for a non-cell or target ∉ −1..res",
          functions=HIER[:-1], bounds="none", exhaustive=True, deps=["oracle_valid_equiv"]),
        H("c14_children_args", "c14", [Q, T], "∀ u64 × ∀ Option<i32> with target ≤ res or target > 29: never panics; Ok ⇒ one canonical ID; Err only when honest",
          functions=HIER, bounds="classes with fan-out ≤ 4 (loops 1×1×4)", unwindset=ch_unwind(1, 1, 4), deps=["oracle_valid_equiv"], mem_gb=16, timeout=1500),
        H("c14_children_d1", "c14", [Q, T], "∀ u64 with res 1..28 (canonical or alias), target None/Some(res+1): Err (non-cell) or 4 canonical children",
          functions=HIER, bounds="fan-out 4", unwindset=ch_unwind(1, 1, 4), deps=["oracle_valid_equiv"], mem_gb=24, timeout=1500),
        H("c14_counts", "c14", [Q, T], "∀ i32 (×3): get_num_cells, cell_area, get_num_children never panic; in-range values follow the hierarchy",
          functions=["a5::core::cell_info::get_num_cells", "a5::core::cell_info::cell_area", "a5::core::cell_info::get_num_children"], bounds="none", exhaustive=True),
        H("c14_uncompact_range", "c14", [Q, T], "∀ u64 × ∀ i32 target with target < res or target ∉ −1..29: uncompact never panics and returns Err",
          functions=["a5::core::compact::uncompact"] + HIER, bounds="one input cell; expansion loops cut (unreachable in this class; unwinding assertions on)", unwindset=ch_unwind(0, 0, 0), mem_gb=16, timeout=1500),
        H("c14_uncompact_args", "c14", [T], "∀ u64 × ∀ i32 target with target ≤ res or target > 29: uncompact never panics; Err ⇔ target<res or target ∉ −1..29",
          functions=["a5::core::compact::uncompact"] + HIER, bounds="one input cell; fan-out ≤ 4", unwindset=ch_unwind(1, 1, 4), mem_gb=24, timeout=1500),
        H("c14_compact_any4", "c14", [T], "∀ 4 arbitrary u64 (strictly increasing): compact terminates, no overflow/OOB; Err only if some input is a non-cell",
          functions=["a5::core::compact::compact"] + ORD, bounds="N=4; passes ≤ 2", unwindset=cmp_unwind(4), mem_gb=30, timeout=3600),
        H("c14_compact_r1_clean5", "c14", [Q, T], "∀ 5 IDs with marker at bit 56 and clean low bits, any top-6 code 0..63 (strictly increasing): no overflow in cell + j·stride; Err only if some input is a non-cell",
          functions=["a5::core::compact::compact"] + ORD, bounds="N=5, IDs of the form code<<58|1<<56; passes ≤ 2", unwindset=cmp_unwind(5), mem_gb=24, mem_est=10, timeout=2400, assumes=COMPACT_STUBS),
        H("c14_compact_r2_clean4", "c14", [Q, T], "∀ 4 IDs with marker at bit 55 and clean low bits, any top-6 code 0..63 (strictly increasing): compact terminates without panic; Err only if some input is a non-cell",
          functions=["a5::core::compact::compact"] + ORD, bounds="N=4, IDs of the form code<<58|k<<56|1<<55; passes ≤ 2", unwindset=cmp_unwind(4), mem_gb=24, mem_est=10, timeout=2400, assumes=COMPACT_STUBS),
        H("c14_compact_lowres5", "c14", [T], "∀ 5 arbitrary u64 of apparent resolution ≤ 1 (strictly increasing): compact has no overflow in cell + j·stride, terminates",
          functions=["a5::core::compact::compact"] + ORD, bounds="N=5, apparent resolution ≤ 1; passes ≤ 2", unwindset=cmp_unwind(5), mem_gb=30, timeout=3600),
        H("c14_lookup_hit", "c14", [Q, T], "∀ finite lon/lat × ∀ i32 r (first probe hits): Ok(id) ⇒ res(id)=r∈−1..29, canonical; Err ⇔ r∉−1..29",
          functions=LK, bounds="search loop returns on its first probe (containment stub)", mem_gb=16, timeout=1800),
    ] + [
        H(n, "c14", [Q, T], f"lonlat_to_cell(∀ finite point, r={r}): Ok(id) ⇒ res(id)=r, canonical; Err ⇔ r∉−1..29", functions=LK,
          bounds="r concrete; estimate stubbed", mem_gb=12, timeout=1200)
        for n, r in [("c14_lookup_r_min", "i32::MIN"), ("c14_lookup_r_m2", -2), ("c14_lookup_r_m1", -1), ("c14_lookup_r_0", 0),
                     ("c14_lookup_r_1", 1), ("c14_lookup_r_30", 30), ("c14_lookup_r_max", "i32::MAX")]
    ],
)
MANIFEST_TEXT["C14"] = dict(
    level="bounded model checking in overflow-checked semantics: one SAT query per exported function over all 2^64 IDs × all i32/Option<i32> resolutions; CBMC discharges every arithmetic/shift overflow, index, unwrap and panic site reachable from the call; counterexamples are replayed natively in dev and release profiles",
    design_ref="DESIGN.md §5 C14",
    note="trusted: Kani/CBMC/CaDiCaL; float leaves of lonlat_to_cell stubbed (named in evidence) — only argument handling and the integer codec are claimed; fan-out per call ≤ 16; compact inputs strictly increasing (std sort/HashSet trusted)",
    technique="Kani/CBMC bounded model checking (SAT) with overflow/bounds/panic checks on the real exported functions over full-width symbolic arguments",
)

# ------------------------------------------------------------------------------------------ C17
HIL = ["a5::core::hilbert::s_to_anchor", "a5::core::hilbert::s_to_anchor_internal", "a5::core::hilbert::shift_digits", "a5::core::hilbert::ij_to_s",
       "a5::core::hilbert::ij_to_s_internal", "a5::core::hilbert::ij_to_quaternary", "a5::core::hilbert::quaternary_to_kj", "a5::core::hilbert::quaternary_to_flips"]
OR6 = ["uv", "vu", "uw", "wu", "vw", "wv"]


def c17h(n, tiers, timeout=1200, mem=8):
    return H(f"c17_n{n}", "c17", tiers, f"∀ s<4^{n}, 6 orientations, δ∈[−2^-16,2^-16]²: centre(s)=offset+CENT[flips][k]+δ is inside the quintant triangle and ij_to_s(centre)=s",
             functions=HIL, bounds=f"curve depth n={n} ({4**n} positions × 6 orientations, all in one query)", cfgs=["verif_c17"], timeout=timeout, mem_gb=mem,
             assumes=["centroid table regenerated from the real tiling code this run (native), validated natively against the real centre path for all s<4^8"])


def c17one(n, o, tiers, timeout=3000):
    return H(f"c17_n{n}_{o}", "c17", tiers, f"as c17_n*, depth {n}, orientation {o}", functions=HIL, bounds=f"n={n} ({4**n} positions), orientation {o}", cfgs=["verif_c17"],
             timeout=timeout, mem_gb=8, family=f"c17_n{n}")


PROPERTIES["C17"] = dict(
    explanation="ij_to_s is a left inverse of position ↦ cell centre on all 4^n positions (⇒ pentagons pairwise distinct, none reachable twice, locating a centre returns its position); centres inside the quintant triangle",
    assumptions=["cell centre = anchor.offset + centroid table entry (table regenerated from get_pentagon_vertices/face_to_ij each run; cut validated natively)", "δ-box ±2^-16 absorbs the rounding difference between the two centre computations (measured ≤ 2e-13)"],
    trusted_base=["native table generator /verif/native (links /repo)", "CBMC's IEEE-754 encoding of + − × on doubles"],
    outside_claim=["curve depth n > 8 (the property goes to 29); no induction over depth", "pentagon placement constants (trig at start-up) enter only through the regenerated table"],
    native_prepare=[dict(name="c17table", args=["c17table"], violation_on_fail=False)],
    harnesses=[
        c17h(1, [Q, T]), c17h(2, [Q, T]), c17h(3, [Q, T]), c17h(4, [Q, T]), c17h(5, [Q, T], 1800), c17h(6, [T], 2400),
    ] + [c17one(7, o, [T]) for o in OR6] + [c17one(8, o, [T], 3600) for o in OR6] + [c17one(9, o, [T], 7200) for o in OR6] + [
        H("c17_seq_n2", "c17", [Q, T], "as c17_n2, after s_to_anchor/ij_to_s were just used for an arbitrary other (position, orientation): results do not depend on the previous call",
          functions=HIL, bounds="n=2, two-call sequences", cfgs=["verif_c17"], timeout=1500, mem_gb=8),
        H("c17_seq_n3", "c17", [T], "as c17_seq_n2 at depth 3", functions=HIL, bounds="n=3, two-call sequences", cfgs=["verif_c17"], timeout=2400, mem_gb=8),
        H("c17_anchor_depth28", "c17", [T], "∀ s<4^28, 6 orientations: s_to_anchor has no overflow (1<<n, (1<<2n)−s−1), k<4, integer lattice offset",
          functions=HIL[:3], bounds="n=28", cfgs=["verif_c17"], timeout=3600, mem_gb=16),
    ],
)
MANIFEST_TEXT["C17"] = dict(
    level="bounded model checking of the real Hilbert digit walk (exact small-integer arithmetic carried in f64, bit-precisely encoded): one SAT query per depth covers all 4^n positions × orientations × a δ-box of centre perturbations",
    design_ref="DESIGN.md §5 C17",
    note="trusted: Kani/CBMC/CaDiCaL incl. IEEE-754 encoding; centroid table regenerated natively from the real tiling code on every run and validated against the real centre computation on all s<4^8; depth ≤ 8 (quick ≤ 4)",
    technique="Kani/CBMC bounded model checking (SAT, bit-precise floats) of the real s_to_anchor/ij_to_s over all positions of depth ≤ n",
)

# ------------------------------------------------------------------------------------------ C04 (partial)
PROPERTIES["C04"] = dict(
    explanation="PARTIAL: only the metadata sentence — cell_area(r)·N(r) = authalic Earth area within 1e-9 relative for all r∈0..29, get_num_cells follows 12, 60·4^(r−1). The polygon-area sentence (areas of actual cell boundaries) is outside this technique's reach (projection trig).",
    assumptions=[],
    trusted_base=["CBMC's IEEE-754 encoding of one multiply/divide per case"],
    outside_claim=["first sentence of C04: area of each cell measured from its reported boundary (spherical polygon area through the projection: sin/cos/atan2 on symbolic doubles — not encodable; see DESIGN §6)"],
    harnesses=[
        H("c04_table", "c04", [Q, T], "∀ r∈0..29: |cell_area(r)·N(r) − cell_area(−1)| ≤ 1e-9·cell_area(−1); get_num_cells(r)=N(r) (r≤27; ≤1e-15 rel. at 28,29); area ratio of consecutive levels = 4",
          functions=["a5::core::cell_info::cell_area", "a5::core::cell_info::get_num_cells"], bounds="none: all 30 levels symbolic", exhaustive=True),
        H("c04_table_seq", "c04", [Q, T], "as c04_table, after cell_area/get_num_cells were used for two arbitrary earlier resolutions (any i32): the answers do not depend on call history",
          functions=["a5::core::cell_info::cell_area", "a5::core::cell_info::get_num_cells"], bounds="three-call sequences; all i32 × i32 × 0..29", exhaustive=True),
        H("c04_table_low", "c04", [Q, T], "∀ r<0: cell_area(r) = authalic Earth area, get_num_cells(r)=0", functions=["a5::core::cell_info::cell_area", "a5::core::cell_info::get_num_cells"], bounds="none", exhaustive=True),
    ],
)
MANIFEST_TEXT["C04"] = dict(
    level="PARTIAL claim — metadata sentence only: SAT query over all resolutions of the real cell_area/get_num_cells tables; the per-cell polygon area sentence is not claimed (not encodable: projection trig)",
    design_ref="DESIGN.md §5b C04, §6",
    note="only the second sentence of C04 is decided; the first (area of actual cell polygons) is outside the claim and listed in evidence.outside_claim",
    technique="Kani/CBMC bounded model checking (SAT, bit-precise floats) of the real metadata tables",
)

# ------------------------------------------------------------------------------------------ C18 (partial)
PROPERTIES["C18"] = dict(
    explanation="PARTIAL: quintant↔segment relabelling bijection (all 60), face frame from the quaternion table (all face pairs: antipodes, 63.435° neighbours, north pole), stored axis angles vs documented frame, 93° longitude offset for all longitudes. Nearest-face selection is outside this technique's reach (haversine = sin).",
    assumptions=[],
    trusted_base=["frozen first_quintant table", "CBMC's IEEE-754 encoding"],
    outside_claim=["'the face chosen is the nearest by great-circle distance' (haversine is sin of symbolic doubles)", "consistency of origin.axis with the quaternions through to_cartesian (sin/cos)"],
    harnesses=[
        H("c18_relabel", "c18", [Q, T], "∀ face<12, q<5: segment_to_quintant∘quintant_to_segment = id (and the converse), orientation preserved, both maps are permutations of 0..4; first_quintant = frozen table",
          functions=["a5::core::origin::quintant_to_segment", "a5::core::origin::segment_to_quintant", "a5::core::origin::get_origins"], bounds="none: all 60 (face, quintant) pairs × second quintant", exhaustive=True),
        H("c18_relabel_seq", "c18", [Q, T], "∀ two (face, quintant) pairs queried in sequence (f1, f2, f1 again): round trips hold and the answers for f1 do not change after f2 was queried (no dependence on call history)",
          functions=["a5::core::origin::quintant_to_segment", "a5::core::origin::segment_to_quintant"], bounds="none: all 60×60 ordered pairs", exhaustive=True, timeout=1500),
        H("c18_frame", "c18", [Q, T], "∀ face pairs i,j: centre_i·centre_j ∈ {1,−1,±1/√5} (1e-12), =1 iff i=j, exactly one antipode and five 63.435° neighbours per face, face 0 = north pole, unit quaternions, inverse = conjugate",
          functions=["a5::core::origin::get_origins (generate_origins)", "a5::core::dodecahedron_quaternions::QUATERNIONS"], bounds="none: all 144 pairs", exhaustive=True, timeout=1200),
        H("c18_axis_table", "c18", [Q, T], "∀ face: stored axis (θ,φ) = documented frame (pole; 72°-spaced ring at 63.435°; ring offset 36° at 116.565°; south pole) in curve order",
          functions=["a5::core::origin::get_origins (generate_origins)"], bounds="none", exhaustive=True),
        H("c18_offset", "c18", [Q, T], "∀ finite lon: with deg_to_rad ↦ identity, from_lon_lat(lon,·).theta = lon+93 bit-exactly (offset and plumbing; the factor is pinned by c18_deg_to_rad_points)", functions=["a5::core::coordinate_transforms::from_lon_lat (longitude leg)", "a5::core::coordinate_transforms::deg_to_rad"],
          bounds="none: all finite doubles", exhaustive=True, assumes=["AuthalicProjection::forward stubbed nondeterministically (sin/cos series; does not influence theta)"]),
    ],
)
MANIFEST_TEXT["C18"] = dict(
    level="PARTIAL claim — frame geometry from the constant quaternion table, relabelling bijection and longitude offset are each one SAT query over all faces / pairs / doubles; nearest-face selection is not claimed (not encodable: haversine trig)",
    design_ref="DESIGN.md §5b C18, §6",
    note="the sentence 'the face chosen is the nearest by great-circle distance' is outside the claim and listed in evidence.outside_claim",
    technique="Kani/CBMC bounded model checking (SAT, bit-precise floats) of the real origin tables and relabelling functions",
)

# ------------------------------------------------------------------------------------------ C06 (partial)
def c06a(n, tiers, timeout=1500, mem=8):
    return H(f"c06_anchor_n{n}", "c06", tiers, f"∀ s<4^{n}, 6 orientations: s_to_anchor = reference's Anchor (k, offset bits, flips)", functions=HIL[:3] + ["a5_ref (frozen v0.6.2) same functions"],
             bounds=f"curve depth n={n}", timeout=timeout, mem_gb=mem)


PROPERTIES["C18"]["harnesses"].append(
    H("c18_deg_to_rad_points", "c18", [Q, T], "deg_to_rad: 180°↦π, 90°↦π/2, 0↦0, −180°↦−π exactly; from_lon_lat: −93°↦θ=0, 87°↦θ=π, −3°↦θ=π/2 exactly",
      functions=["a5::core::coordinate_transforms::deg_to_rad", "a5::core::coordinate_transforms::from_lon_lat (longitude leg)"], bounds="concrete points", exhaustive=False))
PROPERTIES["C06"] = dict(
    explanation="PARTIAL: the labelling chain ID ↔ (face, quintant, orientation, anchor) ↔ lattice position is proved equal to a frozen copy of the reference release v0.6.2 for all inputs within bounds (differential harnesses, both sides symbolically executed). Projection/authalic/containment legs are outside this technique's reach.",
    assumptions=[FMT_STUB],
    trusted_base=["/verif/reference/a5-0.6.2 (frozen copy of the pinned release, crate renamed a5_ref)"],
    outside_claim=["projection, authalic and containment legs (float trig; DESIGN §6)", "start-up pentagon/basis constants are compared natively with 1e-12 relative tolerance as a table pin (native_steps.c06pins), not a solver obligation",
                   "anchors at curve depth > 12"],
    native_prepare=[dict(name="c06pins", args=["c06pins"], violation_on_fail=False)],
    harnesses=[
        H("c06_decode", "c06", [Q, T], "∀ u64: deserialize/get_resolution ≡ reference (Ok/Err and every field)", functions=SER + ["a5_ref::core::serialization::*"], bounds="none", exhaustive=True),
        H("c06_encode", "c06", [Q, T], "∀ valid cell(−1..29): serialize = reference's u64", functions=SER + ["a5_ref::core::serialization::*"], bounds="none", exhaustive=True, assumes=[VALID]),
        H("c06_relabel", "c06", [Q, T], "∀ face<12, k<5: both relabelling maps = reference's (index, orientation); face tables bit-equal", functions=["a5::core::origin::*", "a5_ref::core::origin::*"], bounds="none", exhaustive=True),
        H("c06_tables", "c06", [Q, T], "∀ r∈−1..30: get_num_cells, cell_area bit-equal to reference; QUATERNIONS bit-equal", functions=["a5::core::cell_info::*", "a5_ref::core::cell_info::*"], bounds="r ∈ −1..30", exhaustive=True),
        H("c06_lon_offset", "c06", [Q, T], "∀ finite lon: longitude leg of from_lon_lat (deg_to_rad ↦ identity in both crates) bit-equal to reference", functions=["a5::core::coordinate_transforms::from_lon_lat"], bounds="none", exhaustive=True),
        c06a(2, [Q, T]), c06a(4, [Q, T]), c06a(6, [Q, T]), c06a(8, [T], 3000), c06a(10, [T], 3600, 12), c06a(12, [T], 3600, 16),
    ],
)
MANIFEST_TEXT["C06"] = dict(
    level="PARTIAL claim — translation-validation-style differential model checking: the current tree and a frozen copy of v0.6.2 are both compiled by Kani and their outputs compared bitwise under one SAT query per function over all inputs within bounds; only the integer labelling chain is claimed",
    design_ref="DESIGN.md §5b C06, §6",
    note="a violation means the label of some lattice position / ID changed (never a false alarm); the converse needs the float legs and is not claimed",
    technique="Kani/CBMC differential bounded model checking (SAT) of current vs frozen-reference codec, relabelling and Hilbert anchors",
)
for k in ("C04", "C06", "C18"):
    NOT_APPLICABLE.pop(k, None)



# ------------------------------------------------------------------------------------------ C08 / C09 / C10
CMP = ["a5::core::compact::compact (whole body incl. both prelude statements and the fixed-point loop)", "a5::core::serialization::is_first_child",
       "a5::core::serialization::get_stride", "a5::core::serialization::cell_to_parent", "a5::core::serialization::deserialize", "a5::core::serialization::serialize"]
SORTED = "input: strictly increasing N-tuple of canonical cell IDs = one arrangement per set of N distinct cells (compact sorts its input itself); ancestor/descendant overlaps allowed"
CDEPS = ["oracle_res_equiv", "oracle_valid_equiv", "oracle_covers_equiv"]


def c08c(n, tiers, timeout, mem, est):
    return H(f"c08_cover_{n}", "c08", tiers, f"∀ strictly increasing {n}-tuple of valid cells (any resolutions 0..29, overlaps allowed), ∀ valid resolution-29 cell y: (∃ input covers y) = (∃ output covers y); output valid, pairwise distinct, len ≤ {n}",
             functions=CMP, bounds=f"N={n} cells; passes ≤ 2 (a deeper cascade needs ≥ 7 cells; unwinding assertions on)", unwindset=cmp_unwind(n), assumes=[SORTED] + COMPACT_STUBS, deps=CDEPS, timeout=timeout, mem_gb=mem, mem_est=est)


PROPERTIES["C08"] = dict(
    explanation="coverage preservation of the real compact for every strictly increasing N-tuple of valid cells with the witness cell universally quantified by the solver; merge of a complete group; order/multiplicity for N=2 with the real de-dup and a contract-equivalent sort; detector for a dropped sort",
    assumptions=[SORTED, FMT_STUB] + COMPACT_STUBS,
    trusted_base=["std HashSet is a set and sort_unstable sorts (order/multiplicity beyond N=2 rests on them)", "bit-level oracles proved equal to the real code in the same run"],
    outside_claim=["N above the bound (quick 3, thorough 5)", "order/multiplicity independence beyond N=2 (std trusted)", "cascades deeper than the pass bound"],
    harnesses=[oracle("oracle_res_equiv"), oracle("oracle_valid_equiv"), oracle("oracle_covers_equiv"),
               H("oracle_child_equiv", "oracles", [Q, T], "∀ valid cell(1..28), k<4: spec_child(id,k) = serialize(child k)", functions=SER, bounds="none", exhaustive=True),
               c08c(2, [T], 1200, 12, 4), c08c(3, [Q, T], 2400, 24, 12), c08c(4, [T], 5400, 40, 16),
               H("c08_group4_merges", "c08", [Q, T], "∀ valid parent p (r 1..28): compact(its 4 children) = [p]", functions=CMP, bounds="N=4 built from one symbolic parent; passes ≤ 2", unwindset=cmp_unwind(4), assumes=COMPACT_STUBS, timeout=2400, mem_gb=24, mem_est=10),
    ] + [
               H(f"c08_cover_{n}m", "c08", tiers, f"as c08_cover_N with N={n} and cell_to_parent replaced by its proved contract model", functions=CMP[:4], bounds=f"N={n} cells; passes ≤ {ps}", unwindset=cmp_unwind(n, ps),
                 assumes=[SORTED] + COMPACT_STUBS + [PARENT_MODEL], deps=CDEPS + ["oracle_parent_equiv"], timeout=to, mem_gb=mem, mem_est=est)
               for n, tiers, ps, to, mem, est in [(4, [Q, T], 2, 2400, 16, 6), (5, [T], 2, 5400, 30, 10), (6, [T], 2, 9000, 36, 12)]
    ] + [
               H("oracle_parent_equiv", "oracles", [Q, T], "∀ canonical x of resolution ≥ 0: cell_to_parent(x, None) = spec_parent1(x)", functions=HIER[:-1], bounds="none", exhaustive=True),
               H("c08_near_group4", "c08", [Q, T], "∀ parent p (r 1..28), ∀ missing child k, ∀ valid cell x: compact({3 children of p, x}) preserves coverage; merged to [p] iff x is the missing child; otherwise 4 cells remain (no false merge)",
                 functions=CMP, bounds="N=4: 3 siblings from one symbolic parent + 1 arbitrary cell, unsorted", unwindset=cmp_unwind(4), assumes=COMPACT_STUBS + [PARENT_MODEL], deps=CDEPS + ["oracle_child_equiv", "oracle_parent_equiv"], timeout=2400, mem_gb=16, mem_est=6),
               H("c08_prelude_swap", "c08", [Q, T], "∀ two arbitrary valid cells (unsorted, possibly equal): compact([a,b]) = compact([b,a]), sorted, deduplicated",
                 functions=CMP[:4], bounds="N=2", unwindset=cmp_unwind(2, 1), assumes=["real set membership test (ASSUME_UNIQUE off)", "sort back end ↦ bounded insertion sort (≤ 4, asserted)", COMPACT_STUBS[2], PARENT_MODEL], deps=["oracle_parent_equiv"], timeout=1500, mem_gb=12, mem_est=4),
               H("c08_prelude_dup", "c08", [T], "∀ two arbitrary valid cells: compact([a,a,b]) = compact([a,b,a]) = compact([a,b])",
                 functions=CMP[:4], bounds="N=3 with one duplicate", unwindset=cmp_unwind(3, 1), assumes=["real set membership test (ASSUME_UNIQUE off)", "sort back end ↦ bounded insertion sort (≤ 4, asserted)", COMPACT_STUBS[2], PARENT_MODEL], deps=["oracle_parent_equiv"], timeout=3600, mem_gb=36, mem_est=24),
               H("c08_unsorted_4", "c08", [Q, T], "input strictly decreasing: coverage preserved and 4 siblings still merge (detects a dropped/misplaced sort)", functions=CMP[:4], bounds="N=4", unwindset=cmp_unwind(4),
                 assumes=COMPACT_STUBS + [PARENT_MODEL], deps=["oracle_parent_equiv"], timeout=2400, mem_gb=16, mem_est=6),
               ],
)
MANIFEST_TEXT["C08"] = dict(
    level="bounded model checking of the real compact (whole function body) on every set of N distinct valid cells of any resolutions, overlaps allowed, with the witness cell at the finest level universally quantified — equality of expansions without expanding; N ≤ 4 quick, ≤ 6 thorough; plus merge / no-false-merge of (near-)complete sibling groups and order/multiplicity for N = 2 with the real de-dup",
    design_ref="DESIGN.md §2.3, §5 C08",
    note="guard on (Vec-backed set model, ASSUME_UNIQUE for distinct inputs); std's internal sort back end ↦ bounded insertion sort with the same contract; get_resolution and (in the m harnesses) cell_to_parent replaced by models proved equal to the real functions over the full input width in the same run; order/multiplicity beyond N=2 trusts std",
    technique="Kani/CBMC bounded model checking (SAT) of the real compact over symbolic sorted cell tuples with a universally quantified witness cell",
)

UNC = ["a5::core::compact::uncompact", "a5::core::cell_info::get_num_children", "a5::core::serialization::cell_to_children", "a5::core::serialization::get_resolution"]
PROPERTIES["C09"] = dict(
    explanation="uncompact = per-input cell_to_children in input order, right length, Err (nothing returned) iff some input is finer than the target; descendant-set facts then follow from C07's children harnesses",
    assumptions=[VALID, FMT_STUB],
    trusted_base=[],
    outside_claim=["lists longer than 3; lists mixing fan-outs beyond c09_pair_d1", "fan-out > 12 per input", "d ≥ 2 levels in one call, except the callee's resolution 1 → 3 expansion (thorough: c07_children_d2_r1); the rest follows by C07 composition, not executed"],
    harnesses=[
        oracle("oracle_res_equiv"), oracle("oracle_valid_equiv"),
        H("c09_single_flat", "c09", [Q, T], "∀ valid cell(−1..29) c, ∀ t∈−1..res c: uncompact([c],t) = [c] iff t=res c, else Err", functions=UNC, bounds="one input; fan-out 1 (expansion loops cut: unreachable in this class, unwinding assertions on)", unwindset=ch_unwind(0, 0, 0), assumes=[VALID, "get_resolution ↦ res_stub"], deps=["oracle_res_equiv"], timeout=1500, mem_gb=16),
        H("c09_children_same", "c09", [Q, T], "∀ valid cell(−1..29): cell_to_children(c, Some(res c)) = [c] — the callee contract used by c09_list3_flat", functions=["a5::core::serialization::cell_to_children"] + SER,
          bounds="none on c; expansion loops cut (unreachable for a same-resolution call)", unwindset=ch_unwind(0, 0, 0), assumes=[VALID, "get_resolution ↦ res_stub"], deps=["oracle_res_equiv"], timeout=1500, mem_gb=16),
        H("c09_list3_flat", "c09", [Q, T], "∀ three valid cells, ∀ t ≤ every resolution: Ok([a,b,c]) in input order iff all are at t; Err iff any one (first, middle or last) is finer", functions=["a5::core::compact::uncompact (real)", "a5::core::cell_info::get_num_children"],
          bounds="list length 3; fan-out 1 per input", assumes=[VALID, "get_resolution ↦ res_stub", "cell_to_children ↦ contract model for the same-resolution call (proved on the real function by c09_children_same in the same run)"],
          deps=["oracle_res_equiv", "oracle_valid_equiv", "c09_children_same"], timeout=1800, mem_gb=24, mem_est=10),
        H("c09_list3_mixed", "c09", [Q, T], "∀ three valid cells each at t, at t−1 (res ≥ 1) or finer, ∀ t ∈ 2..29: Ok iff none is finer; output = concatenation of the per-input expansions in input order, length = sum of fan-outs (1 / 4)",
          functions=["a5::core::compact::uncompact (real)", "a5::core::cell_info::get_num_children"], bounds="list length 3; fan-out 1 or 4 per input",
          assumes=[VALID, "get_resolution ↦ res_stub", "cell_to_children ↦ contract model (same resolution: [x]; one level down: the four spec_child IDs) — proved on the real function by c09_children_same and c07_children_d1"],
          deps=["oracle_res_equiv", "oracle_valid_equiv", "oracle_child_equiv", "c09_children_same", "c07_children_d1"], timeout=2400, mem_gb=30, mem_est=14),
        H("c07_children_d1", "c07", [Q, T], "∀ valid cell(1..28): children(c,r+1)[i] = spec_child(c,i): 4 entries, distinct, increasing, resolution r+1, parent=c, canonical (callee contract for c09_list3_mixed)",
          functions=HIER, bounds="fan-out 4; loops 1×1×4 (unwinding assertions on)", unwindset=ch_unwind(1, 1, 4), assumes=[VALID], deps=["oracle_valid_equiv"], timeout=1500, mem_gb=24),
        H("oracle_child_equiv", "oracles", [Q, T], "∀ valid cell(1..28), k<4: spec_child(id,k) = serialize(child k)", functions=SER, bounds="none", exhaustive=True),
        H("c07_fanout", "c07", [Q, T], "pre-count formula: get_num_children = ∏ apertures", functions=["a5::core::cell_info::get_num_children"], bounds="c−p ≤ 8"),
        H("c07_children_d2_r1", "c07", [T], "∀ quintant cell (resolution 1), ∀ i<16: cell_to_children(c,3) — uncompact's callee, two levels in one call — has 16 entries and [i] = spec_child(spec_child(c,i>>2),i&3)",
          functions=["a5::core::serialization::cell_to_children"] + SER, bounds="fan-out 16; loops 1×1×16 (unwinding assertions on); parent resolution 1", unwindset=ch_unwind(1, 1, 16), assumes=[VALID, "get_resolution ↦ res_stub"], deps=["oracle_res_equiv", "c07_children_d1"], timeout=2400, mem_gb=40, mem_est=20),
        H("c09_world_r1", "c09", [Q, T], "uncompact([world],1) = 60 quintant cells, face-major, pairwise distinct (symbolic index pair), each canonical of resolution 1 — two levels in one call with the real callee", functions=UNC,
          bounds="concrete input; fan-out 60 fully unwound", timeout=2400, mem_gb=30, mem_est=12, assumes=["get_resolution ↦ res_stub"], deps=["oracle_res_equiv", "oracle_valid_equiv"]),
        H("c09_world", "c09", [Q, T], "uncompact([world],0) = the 12 base cells in face order, each canonical of resolution 0", functions=UNC,
          bounds="concrete input; fan-out 12 fully unwound", timeout=1500, mem_gb=16, assumes=["get_resolution ↦ res_stub"], deps=["oracle_res_equiv", "oracle_valid_equiv"]),
    ],
)
MANIFEST_TEXT["C09"] = dict(
    level="bounded model checking of the real uncompact: all valid cells × all targets in the fan-out-1 / error classes, the world class, and lists of three with fan-outs 1 and 4 (input order, total length, error iff any input is finer) with the callee cell_to_children replaced by a contract model proved on the real function in the same run",
    design_ref="DESIGN.md §5 C09",
    note="the one-level expansion with the *real* callee inside uncompact exceeds 45 GB (symbolic-size Vec allocation) and is not registered; it is covered compositionally: uncompact's own list logic is the real code, its callee cell_to_children is replaced by a contract model proved on the real function (c09_children_same, c07_children_d1) in the same run",
    technique="Kani/CBMC bounded model checking (SAT) of the real uncompact against the real cell_to_children on symbolic cells",
)

PROPERTIES["C10"] = dict(
    explanation="maximality (no complete sibling group survives, through a universally quantified parent), idempotence and sortedness of the result, invariance under one split move (inductive step for canonicity) on non-overlapping sets of N distinct cells; the base-cell/quintant interleaving class for all face pairs",
    assumptions=[SORTED + "; pairwise non-overlapping", FMT_STUB] + COMPACT_STUBS,
    trusted_base=["bit-level oracles (res_stub, spec_valid, spec_covers, spec_child) proved equal to the real code in the same run"],
    outside_claim=["N above the bound (4–5) for arbitrary sets", "low-resolution sets (base cells mixed with quintants) beyond the two-symbol family c10_lowres_fg: six independent symbolic cells of resolution ≤ 1 run out of memory (50 GB)",
                   "cascades deeper than one level inside one call (need ≥ 7 cells)"],
    harnesses=[oracle("oracle_res_equiv"), oracle("oracle_valid_equiv"), oracle("oracle_covers_equiv"), 
               H("oracle_child_equiv", "oracles", [Q, T], "∀ valid cell(1..28), k<4: spec_child(id,k) = serialize(child k)", functions=SER, bounds="none", exhaustive=True),
               H("c10_max_4", "c10", [Q, T], "∀ non-overlapping strictly increasing 4-tuple, ∀ valid parent p: output never contains all children of p", functions=CMP, bounds="N=4", unwindset=cmp_unwind(4), assumes=COMPACT_STUBS, deps=CDEPS, timeout=5400, mem_gb=40, mem_est=16),
               H("c10_lowres_fg", "c10", [T], "∀ faces f≠g: compact({5 quintants of f, base cell of g}) = {base f, base g}, numerically sorted (the interleaving class)", functions=CMP, bounds="6 cells built from two symbolic faces",
                 unwindset=cmp_unwind(6), assumes=COMPACT_STUBS[1:], timeout=5400, mem_gb=45, mem_est=30),
               H("oracle_parent_equiv", "oracles", [Q, T], "∀ canonical x of resolution ≥ 0: cell_to_parent(x, None) = spec_parent1(x)", functions=HIER[:-1], bounds="none", exhaustive=True),
    ] + [
               H(f"c10_max_{n}m", "c10", tiers, f"∀ non-overlapping set of {n} distinct valid cells (any resolutions 0..29), ∀ valid parent p: output never contains all children of p" + ("; output numerically sorted and non-overlapping" if n <= 4 else "") + " (cell_to_parent ↦ proved contract model)", functions=CMP[:4],
                 bounds=f"N={n}; passes ≤ {ps}", unwindset=cmp_unwind(n, ps), assumes=COMPACT_STUBS + [PARENT_MODEL], deps=CDEPS + ["oracle_parent_equiv"], timeout=to, mem_gb=mem, mem_est=est)
               for n, tiers, ps, to, mem, est in [(4, [Q, T], 2, 3600, 16, 6), (5, [Q, T], 2, 5400, 24, 10), (6, [T], 2, 7200, 30, 12), (7, ["deep"], 3, 18000, 40, 20)]
    ] + [
               H("c10_split_2m", "c10", [T], "∀ non-overlapping pair, ∀ i: replacing x[i] by its 4 children gives the same compacted vector (parent model)", functions=CMP[:4], bounds="2 → 5 cells", unwindset=cmp_unwind(5), assumes=COMPACT_STUBS + [PARENT_MODEL], deps=["oracle_child_equiv", "oracle_parent_equiv"], timeout=7200, mem_gb=45, mem_est=16),
                              H("c10_max_5_hi", "c10", [T], "N=5, resolutions ≥ 2, real cell_to_parent (integration of the modelled callee)", functions=CMP, bounds="N=5, r≥2", unwindset=cmp_unwind(5), assumes=COMPACT_STUBS, deps=CDEPS, timeout=7200, mem_gb=45, mem_est=26),
               H("c10_split_1m", "c10", [Q, T], "∀ valid x (r 1..28): compact(children of x) = compact([x]) (cell_to_parent ↦ proved contract model)", functions=CMP[:4], bounds="1 → 4 cells", unwindset=cmp_unwind(4), assumes=COMPACT_STUBS + [PARENT_MODEL], deps=["oracle_child_equiv", "oracle_parent_equiv"], timeout=2400, mem_gb=16, mem_est=6),
               H("c10_split_1", "c10", [T], "∀ valid x (r 1..28): compact(children of x) = compact([x])", functions=CMP, bounds="1 → 4 cells", unwindset=cmp_unwind(4), assumes=COMPACT_STUBS, deps=["oracle_child_equiv"], timeout=3600, mem_gb=30, mem_est=12),
               ],
)
MANIFEST_TEXT["C10"] = dict(
    level="bounded model checking of the real compact on every non-overlapping set of N distinct cells of any resolutions (N ≤ 5 quick, ≤ 7 thorough — including base cells mixed with quintants and two-level cascades): maximality via a universally quantified parent, numeric sortedness, invariance under one split move; idempotence follows as a corollary within the bounds",
    design_ref="DESIGN.md §5 C08/C10",
    note="guard on; sort back end ↦ bounded insertion sort; get_resolution and (m harnesses) cell_to_parent replaced by models proved equal to the real functions in the same run; one harness per class keeps the real callee; idempotence is not a separate harness (two calls exceed 45 GB) — see DESIGN §5",
    technique="Kani/CBMC bounded model checking (SAT) of the real compact over symbolic non-overlapping sorted cell tuples",
)
