#!/usr/bin/env python3
"""Regenerate /verif/MANIFEST.json from the registry (keeps the manifest and the checks in sync)."""
import json, os, sys
VERIF = os.path.dirname(os.path.dirname(os.path.abspath(__file__)))
sys.path.insert(0, VERIF)
from vlib.registry import PROPERTIES, NOT_APPLICABLE, MANIFEST_TEXT

hooks_commits = [l.strip() for l in open(os.path.join(VERIF, "hooks_commits.txt")) if l.strip()]
checks = []
for pid in sorted(PROPERTIES):
    p = PROPERTIES[pid]
    mt = MANIFEST_TEXT[pid]
    checks.append({
        "property_id": pid,
        "quick_cmd": f"./check {pid} --tier quick",
        "thorough_cmd": f"./check {pid} --tier thorough",
        "evidence_file": f"/verif/evidence/{pid}.json",
        "replay_cmd_template": "./check --replay {path}",
        "engine": "kani-cbmc",
        "level_claimed": {"category": "model_checking", "text": mt["level"], "design_ref": mt["design_ref"]},
        "level_note": mt["note"],
        "technique": mt["technique"],
    })
m = {
    "version": 1,
    "setup_cmd": "./setup.sh",
    "hooks": {
        "guard": "--cfg felixpalmer_a5_rs_verif",
        "enable": "RUSTFLAGS='--cfg felixpalmer_a5_rs_verif' (set by ./check for every cargo kani invocation); swaps std HashSet for crate::verif_set::HashSet in compact.rs and cell.rs",
        "baseline_off_cmd": "cd /repo && cargo test --workspace --no-fail-fast --offline",
        "source_commits": hooks_commits,
        "add_only": True,
    },
    "engines": [{
        "name": "kani-cbmc", "path": "/verif/kani",
        "serves_properties": sorted(PROPERTIES),
        "kind_free_text": "Kani 0.68 proof harnesses over /repo's working tree (path dependency), CBMC 6.11 bit-precise bounded model checking, CaDiCaL SAT; driver /verif/check (python) schedules harnesses, applies per-loop unwindsets, classifies verdicts, replays counterexamples natively",
    }],
    "checks": checks,
    "not_applicable": [{"property_id": k, "reason": v} for k, v in sorted(NOT_APPLICABLE.items())],
    "notes": "Technique family: solver-based checking of the real code. Exit 0 = every registered harness SUCCESSFUL within its stated bounds; exit 1 = solver counterexample reproduced natively (VIOLATION line); exit 2 = inconclusive (timeout, OOM, unwinding assertion, vacuous cover) — never reported as pass. Known findings: /verif/known_findings.json.",
}
json.dump(m, open(os.path.join(VERIF, "MANIFEST.json"), "w"), indent=1)
print("MANIFEST.json:", len(checks), "checks,", len(m["not_applicable"]), "not applicable")
