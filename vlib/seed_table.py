#!/usr/bin/env python3
"""Print the markdown table of seeded changes from seeded/*/meta.json (for DESIGN.md §7)."""
import json, glob, os
VERIF = os.path.dirname(os.path.dirname(os.path.abspath(__file__)))
rows = []
for f in sorted(glob.glob(os.path.join(VERIF, "seeded", "*", "meta.json"))):
    m = json.load(open(f))
    det = []
    for c, r in m.get("checks", {}).items():
        hs = sorted({l.split("harness=")[1].split(":")[0] for l in r["lines"] if l.strip().startswith("harness=") and "VIOLATION" not in l and any(("VIOLATION" in x and c in x) for x in r["lines"])})
        viol = [l for l in r["lines"] if l.startswith("VIOLATION")]
        names = []
        for i, l in enumerate(r["lines"]):
            if l.startswith("VIOLATION") and i + 1 < len(r["lines"]) and r["lines"][i + 1].strip().startswith("harness="):
                names.append(r["lines"][i + 1].strip().split("harness=")[1].split(":")[0])
        verdict = {0: "pass (missed)", 1: "VIOLATION", 2: "inconclusive"}.get(r["rc"], str(r["rc"]))
        det.append(f"{c} {r['tier']}: {verdict}" + (f" ({', '.join(sorted(set(names)))})" if names else ""))
    rows.append((m["id"], m["breaks_property"], "yes" if m.get("confirmed") else "NO", "; ".join(det)))
print("| seeded change | property | confirmed | result of the registered checks |")
print("|---|---|---|---|")
for r in rows:
    print("| `%s` | %s | %s | %s |" % r)
