#!/usr/bin/env python3
"""Driver for the solver-based checks of a5-rs (see DESIGN.md §4).

  check <PROPERTY> [--tier quick|thorough] [--only <harness>] [--keep] [--jobs N]
  check --replay <replay.json>

Every harness is a Kani proof harness compiled from /repo's *current working tree*
(path dependency), decided by CBMC+CaDiCaL. Verdict per harness:
  pass          VERIFICATION SUCCESSFUL (ignoring CBMC's non-Rust NaN/float-overflow checks),
                no failed unwinding assertion, every kani::cover! satisfied
  counterexample  a Rust-level check failed (assertion, panic, overflow, index, ...)
  inconclusive  timeout, out of memory, failed unwinding assertion, unsatisfied cover,
                build failure
A counterexample is replayed natively (concrete playback, stubs off, guard off, dev and
release profile) before a VIOLATION line is printed.
Exit code: 0 all pass (known findings listed), 1 violation, 2 inconclusive.
"""
import json
import os
import re
import resource
import shutil
import signal
import subprocess
import sys
import threading
import time
import hashlib

VERIF = os.path.dirname(os.path.dirname(os.path.abspath(__file__)))
# The checks verify /repo. VERIF_REPO=<dir> points the same machinery at another checkout of the
# repository (used only to evaluate seeded changes in scratch worktrees without touching /repo):
# the three helper crates are then copied into the work directory with their path dependency rewritten.
REPO = os.environ.get("VERIF_REPO", "/repo").rstrip("/") or "/repo"
KANI_CRATE = os.path.join(VERIF, "kani")
NATIVE_CRATE = os.path.join(VERIF, "native")


def relocate_crates(workdir):
    """Copy kani/, native/, replay_native/ into workdir with `path = "/repo"` → REPO."""
    global KANI_CRATE, NATIVE_CRATE, REPLAY_CRATE
    base = os.path.join(workdir, "crates")
    for name in ("kani", "native", "replay_native"):
        dst = os.path.join(base, name)
        shutil.copytree(os.path.join(VERIF, name), dst, ignore=shutil.ignore_patterns("target"))
        for root, _d, files in os.walk(dst):
            for fn in files:
                if fn == "Cargo.toml":
                    fp = os.path.join(root, fn)
                    t = open(fp).read().replace('path = "/repo"', f'path = "{REPO}"')
                    t = t.replace('path = "../kani/src/lib.rs"', f'path = "{base}/kani/src/lib.rs"')
                    open(fp, "w").write(t)
    KANI_CRATE = os.path.join(base, "kani")
    NATIVE_CRATE = os.path.join(base, "native")
    REPLAY_CRATE = os.path.join(base, "replay_native")
GUARD = "felixpalmer_a5_rs_verif"
IGNORED_DESC = (
    "NaN on ",
    "arithmetic overflow on floating-point",
)

sys.path.insert(0, VERIF)
from vlib.registry import PROPERTIES  # noqa: E402


def log(msg):
    print(msg, flush=True)


def base_env(extra_cfgs=(), gen_dir=None):
    env = dict(os.environ)
    env["CARGO_NET_OFFLINE"] = "true"
    cfgs = ["--cfg " + GUARD] + ["--cfg " + c for c in extra_cfgs]
    env["RUSTFLAGS"] = " ".join(cfgs)
    if gen_dir:
        env["VERIF_GEN_DIR"] = gen_dir
    env.pop("RUSTUP_TOOLCHAIN", None)
    return env


def run_limited(cmd, env, cwd, timeout_s, mem_gb, logfile):
    """Run cmd in its own process group under an address-space cap; returns (rc, timed_out, wall)."""

    def pre():
        os.setsid()
        if mem_gb:
            lim = int(mem_gb * (1 << 30))
            resource.setrlimit(resource.RLIMIT_AS, (lim, lim))

    t0 = time.time()
    with open(logfile, "ab") as lf:
        lf.write(("\n$ " + " ".join(cmd) + "\n").encode())
        lf.flush()
        p = subprocess.Popen(cmd, env=env, cwd=cwd, stdout=lf, stderr=subprocess.STDOUT, preexec_fn=pre)
        timed_out = False
        try:
            rc = p.wait(timeout=timeout_s)
        except subprocess.TimeoutExpired:
            timed_out = True
            try:
                os.killpg(p.pid, signal.SIGKILL)
            except ProcessLookupError:
                pass
            rc = p.wait()
    return rc, timed_out, time.time() - t0


CHECK_RE = re.compile(
    r"^Check (\d+): (\S+)\n\s+- Status: (\w+)\n\s+- Description: \"(.*)\"\n(?:\s+- Location: (.*)\n)?", re.M
)


def parse_kani_output(text):
    """Extract verdict ingredients from Kani's regular output."""
    res = {
        "checks_total": 0,
        "checks_success": 0,
        "failed": [],
        "ignored_failed": [],
        "unwinding_failed": [],
        "undetermined": 0,
        "covers": [],
        "covers_unsat": [],
        "verification": None,
        "solver_s": None,
        "variables": None,
        "clauses": None,
        "stubs": [],
        "error_lines": [],
    }
    for m in CHECK_RE.finditer(text):
        _n, name, status, desc, loc = m.groups()
        is_cover = ".cover." in name or desc.startswith("cover condition")
        if is_cover:
            res["covers"].append({"desc": desc, "status": status})
            if status != "SATISFIED":
                res["covers_unsat"].append(desc)
            continue
        res["checks_total"] += 1
        if status == "SUCCESS":
            res["checks_success"] += 1
        elif status == "FAILURE":
            entry = {"check": name, "desc": desc, "loc": loc or ""}
            if "unwinding assertion" in desc or ".unwind." in name:
                res["unwinding_failed"].append(entry)
            elif desc.startswith(IGNORED_DESC):
                res["ignored_failed"].append(entry)
            else:
                res["failed"].append(entry)
        elif status in ("UNDETERMINED", "ERROR"):
            res["undetermined"] += 1
    m = re.search(r"VERIFICATION:- (\w+)", text)
    if m:
        res["verification"] = m.group(1)
    m = re.search(r"Verification Time: ([0-9.]+)s", text)
    if m:
        res["solver_s"] = float(m.group(1))
    m = None
    for m in re.finditer(r"(\d+) variables, (\d+) clauses", text):
        pass
    if m:
        res["variables"], res["clauses"] = int(m.group(1)), int(m.group(2))
    res["stubs"] = re.findall(r"- Stub: (.*)", text)
    for line in text.splitlines():
        if line.startswith("error") or "Status: ERROR" in line or "out of memory" in line.lower() or "std::bad_alloc" in line:
            res["error_lines"].append(line.strip()[:300])
    return res


def parse_playback(text):
    """Concrete playback tests printed by Kani → list of {kind, desc, vals=[[bytes]...]}."""
    out = []
    for block in text.split("Concrete playback unit test for")[1:]:
        m = re.search(r"/// Check for `(\w+)`: \"([^\n]*)\"", block)
        b = re.search(r"let concrete_vals: Vec<Vec<u8>> = vec!\[\n(.*?)\n\s+\];", block, re.S)
        if not m or not b:
            continue
        vals = []
        for vm in re.finditer(r"^\s+vec!\[([0-9, ]*)\],?\s*$", b.group(1), re.M):
            s = vm.group(1).strip()
            vals.append([int(x) for x in s.split(",") if x.strip()] if s else [])
        out.append({"kind": m.group(1), "desc": m.group(2), "vals": vals})
    return out


class Job:
    def __init__(self, prop, spec, tier, workdir, gen_dir, cfgs):
        self.prop = prop
        self.spec = spec
        self.tier = tier
        self.name = spec["name"]
        self.module = spec["module"]
        self.target = os.path.join(workdir, "t_" + self.name)
        self.logfile = os.path.join(workdir, self.name + ".log")
        self.gen_dir = gen_dir
        self.cfgs = list(cfgs) + list(spec.get("cfgs", []))
        self.result = None

    def kani_cmd(self, extra=()):
        cmd = [
            "cargo", "kani", "--harness", f"{self.module}::{self.name}", "--exact",
            "--target-dir", self.target, "-Z", "stubbing", "--no-assertion-reach-checks", "--verbose",
            # CBMC-level float checks (NaN, float overflow) are not Rust failures and make float queries
            # intractable; Rust's own overflow/division/shift checks are compiled into the GOTO program
            # by rustc (-C overflow-checks=on) and stay on.
            "-Z", "unstable-options", "--no-overflow-checks",
        ]
        cmd += list(self.spec.get("kani_args", []))
        cmd += list(extra)
        return cmd

    def discover_unwindset(self, env):
        """Loop ids are mangled per build: list them with cbmc --show-loops and address loops by
        (function substring, ordinal)."""
        us = self.spec.get("unwindset")
        if not us:
            return []
        # Kani's output parser aborts on cbmc's --show-loops JSON, but only after the per-harness
        # GOTO binary has been written and its path logged; cbmc then lists the loops directly.
        cmd = self.kani_cmd(["--cbmc-args", "--show-loops"])
        run_limited(cmd, env, KANI_CRATE, 900, 16, self.logfile)
        text = open(self.logfile, errors="replace").read()
        m = re.search(r"Reading GOTO program from file (\S+\.out)", text)
        if not m or not os.path.exists(m.group(1)):
            raise RuntimeError("unwindset: GOTO binary not found (harness crate failed to build?)")
        out = subprocess.run(["cbmc", "--show-loops", m.group(1)], capture_output=True, text=True, timeout=600).stdout
        loops = []  # (id, line, column) in listing order
        for lm in re.finditer(r"^Loop (\S+):\n\s+file (\S+) line (\d+)(?: column (\d+))?", out, re.M):
            loops.append((lm.group(1), int(lm.group(3)), int(lm.group(4) or 0)))
        pairs = []
        for func_sub, rank, bound in us:
            # the function itself, not closures inside it or generic instantiations that mention it
            cands = [l for l in loops if l[0].rsplit(".", 1)[0].endswith(func_sub)]
            funcs = []
            for l in cands:
                f = l[0].rsplit(".", 1)[0]
                if f not in funcs:
                    funcs.append(f)
            if not funcs:
                raise RuntimeError(f"unwindset: no loop matches {func_sub!r}")
            for f in funcs:
                # rank = position in *source order* (outermost `for` first), independent of cbmc's numbering
                ids = sorted([l for l in cands if l[0].rsplit(".", 1)[0] == f], key=lambda l: (l[1], l[2]))
                if rank == "*":
                    pairs += [(l[0], bound) for l in ids]
                elif rank < len(ids):
                    pairs.append((ids[rank][0], bound))
                else:
                    # the code was restructured (fewer loops than when the bound was chosen): apply the
                    # bounds that still have a loop; unwinding assertions keep the verdict sound
                    log(f"  note: {self.name}: {func_sub} has only {len(ids)} loops, bound for rank {rank} skipped")
        return pairs

    def run(self):
        t0 = time.time()
        env = base_env(self.cfgs, self.gen_dir)
        spec = self.spec
        r = {"harness": self.name, "module": self.module}
        try:
            extra = []
            pairs = self.discover_unwindset(env)
            if pairs:
                extra = ["--cbmc-args", "--unwindset", ",".join(f"{l}:{b}" for l, b in pairs)]
                r["unwindset"] = [f"{l}:{b}" for l, b in pairs]
            cmd = ["/usr/bin/time", "-f", "VERIF_MAXRSS_KB=%M"] + self.kani_cmd(extra)
            rc, timed_out, wall = run_limited(
                cmd, env, KANI_CRATE, spec.get("timeout", 900), spec.get("mem_gb", 12), self.logfile)
            text = open(self.logfile, errors="replace").read()
            # only the last invocation counts
            text = text[text.rfind("\n$ /usr/bin/time"):]
            p = parse_kani_output(text)
            r.update(p)
            mm = re.search(r"VERIF_MAXRSS_KB=(\d+)", text)
            r["peak_rss_gb"] = round(int(mm.group(1)) / 1e6, 2) if mm else None
            r["rc"] = rc
            r["timed_out"] = timed_out
            if timed_out:
                verdict, why = "inconclusive", f"timeout after {spec.get('timeout', 900)} s"
            elif p["failed"]:
                verdict, why = "counterexample", p["failed"][0]["desc"]
            elif p["unwinding_failed"]:
                verdict, why = "inconclusive", "unwinding assertion failed (bound too small for this tree)"
            elif p["verification"] is None:
                verdict, why = "inconclusive", "no verdict (build failure, crash or out of memory): " + "; ".join(p["error_lines"][:3])
            elif p["undetermined"] and p["verification"] != "SUCCESSFUL":
                verdict, why = "inconclusive", "undetermined checks"
            elif p["covers_unsat"]:
                verdict, why = "inconclusive", "vacuity witness not satisfied: " + p["covers_unsat"][0]
            elif p["verification"] == "SUCCESSFUL" or (p["verification"] == "FAILED" and p["ignored_failed"] and not p["error_lines"]):
                verdict, why = "pass", ""
            else:
                verdict, why = "inconclusive", "FAILED without a Rust-level failing check: " + "; ".join(p["error_lines"][:3])
            r["verdict"], r["why"] = verdict, why
        except Exception as e:  # noqa: BLE001
            r["verdict"], r["why"] = "inconclusive", f"driver error: {e}"
        r["wall_s"] = round(time.time() - t0, 1)
        self.result = r
        return r

    def playback(self):
        """Concrete inputs of the counterexample. Kani's own concrete-playback mode disables formula
        slicing and needs several times the memory of the verification run (measured: 44 GB and
        rising where the run took 6 GB), so the trace is obtained directly: the exact cbmc command
        Kani ran (from its --verbose log) is re-run on the same GOTO binary with
        `--property <failing check> --trace`, and the values returned by kani::any_raw_* are read
        from the JSON trace in call order — the same extraction Kani's playback performs."""
        text = open(self.logfile, errors="replace").read()
        text = text[text.rfind("\n$ /usr/bin/time"):]
        m = None
        for m in re.finditer(r"\[Kani\] Running: `(cbmc [^`]*)`", text):
            pass
        if not m:
            return []
        import shlex
        argv = shlex.split(m.group(1))
        argv = [a for a in argv if a not in ("--json-ui",)]
        if "--verbosity" in argv:
            i = argv.index("--verbosity")
            del argv[i:i + 2]
        tests = []
        for fc in self.result["failed"][:3]:
            out_json = os.path.join(os.path.dirname(self.logfile), f"trace_{self.name}.json")
            cmd = argv + ["--property", fc["check"], "--trace", "--json-ui", "--verbosity", "4"]
            with open(out_json, "w") as of:
                def pre():
                    os.setsid()
                    lim = int(self.spec.get("mem_gb", 12) * 1.5 * (1 << 30))
                    resource.setrlimit(resource.RLIMIT_AS, (lim, lim))
                p = subprocess.Popen(cmd, stdout=of, stderr=subprocess.DEVNULL, preexec_fn=pre)
                try:
                    p.wait(timeout=max(1800, 3 * self.spec.get("timeout", 900)))
                except subprocess.TimeoutExpired:
                    os.killpg(p.pid, signal.SIGKILL)
                    p.wait()
                    continue
            vals = extract_any_values(out_json)
            if vals is not None:
                tests.append({"kind": "assertion", "desc": fc["desc"], "vals": vals})
                break
        return tests


def _bits_to_bytes(b):
    n = len(b) // 8
    v = int(b, 2) if b else 0
    return [(v >> (8 * i)) & 0xFF for i in range(n)]


def _flatten_value(v, out):
    if v is None:
        return
    if "binary" in v:
        out.append(_bits_to_bytes(v["binary"]))
    elif "elements" in v:
        for e in v["elements"]:
            _flatten_value(e.get("value"), out)
    elif "members" in v:
        for e in v["members"]:
            _flatten_value(e.get("value"), out)


def extract_any_values(trace_json):
    """kani::any() values in call order from a cbmc --trace --json-ui run; None if no failing trace."""
    try:
        d = json.load(open(trace_json))
    except Exception:  # noqa: BLE001
        return None
    for item in d:
        res = item.get("result") if isinstance(item, dict) else None
        cands = res if res else ([item] if isinstance(item, dict) and "trace" in item else [])
        for r in cands:
            if r.get("status") != "FAILURE" or "trace" not in r:
                continue
            vals = []
            for st in r["trace"]:
                if st.get("stepType") != "assignment":
                    continue
                fn = st.get("sourceLocation", {}).get("function", "")
                lhs = st.get("lhs", "")
                if fn.startswith("kani::any_raw_") and lhs.startswith("goto_symex$$return_value"):
                    _flatten_value(st.get("value"), vals)
            return vals
    return None


def schedule(jobs, max_jobs, mem_budget_gb):
    """Memory-aware parallel execution (the box has no swap)."""
    def est(j):
        cap = j.spec.get("mem_gb", 12)
        return j.spec.get("mem_est", 4 if cap <= 12 else 0.6 * cap)

    pending = sorted(jobs, key=lambda j: -est(j))
    running = []
    lock = threading.Lock()
    used = [0.0]

    def worker(job):
        job.run()
        with lock:
            used[0] -= est(job)
        r = job.result
        log(f"  [{r['verdict']:>14}] {job.name}  {r['wall_s']} s  checks={r.get('checks_total', 0)}"
            f" covers={len(r.get('covers', []))} rss={r.get('peak_rss_gb')}GB {r.get('why', '')[:160]}")

    while pending or running:
        running = [t for t in running if t.is_alive()]
        started = False
        with lock:
            for job in list(pending):
                need = est(job)
                if len(running) < max_jobs and (used[0] + need <= mem_budget_gb or not running):
                    used[0] += need
                    pending.remove(job)
                    t = threading.Thread(target=worker, args=(job,), daemon=True)
                    t.start()
                    running.append(t)
                    started = True
                    break
        if not started:
            time.sleep(0.5)


def load_findings():
    p = os.path.join(VERIF, "known_findings.json")
    if not os.path.exists(p):
        return []
    return json.load(open(p))["findings"]


def build_native(workdir, release=False, guard=False):
    env = base_env()
    env["RUSTFLAGS"] = ("--cfg " + GUARD) if guard else ""
    tdir = os.path.join(workdir, "native_target")
    cmd = ["cargo", "build", "--offline", "--target-dir", tdir] + (["--release"] if release else [])
    lf = os.path.join(workdir, "native_build.log")
    rc, _, _ = run_limited(cmd, env, NATIVE_CRATE, 900, None, lf)
    if rc != 0:
        raise RuntimeError("native helper crate failed to build, see " + lf)
    return os.path.join(tdir, "release" if release else "debug")


def run_native(bindir, binary, args, timeout=300):
    p = subprocess.run([os.path.join(bindir, binary)] + args, capture_output=True, text=True, timeout=timeout)
    return p.returncode, p.stdout, p.stderr


REPLAY_CRATE = os.path.join(VERIF, "replay_native")
_replay_build_lock = threading.Lock()


def native_replay(job, vals, workdir):
    """Run the harness natively on the solver's assignment with the ordinary toolchain: stubs are not
    applied, the guard is off (std HashSet, real sort, real fmt). Both the dev profile (overflow
    checks on, as Kani models) and the release profile (wrapping arithmetic, as users run).
    Returns dict profile -> (reproduced?, message)."""
    vec_file = os.path.join(workdir, f"replay_{job.name}.txt")
    with open(vec_file, "w") as f:
        for v in vals:
            f.write(" ".join(str(b) for b in v) + "\n")
    out = {}
    for profile in ("dev", "release"):
        env = base_env(job.cfgs, job.gen_dir)
        env["RUSTFLAGS"] = " ".join(["--cfg kani"] + ["--cfg " + c for c in job.cfgs])  # guard off
        tdir = os.path.join(workdir, "replay_target_" + "_".join(sorted(job.cfgs) or ["base"]))
        cmd = ["cargo", "build", "--offline", "--target-dir", tdir] + (["--release"] if profile == "release" else [])
        lf = os.path.join(workdir, f"replay_{job.name}_{profile}.log")
        with _replay_build_lock:
            rc, to, _ = run_limited(cmd, env, REPLAY_CRATE, 900, None, lf)
        if rc != 0:
            out[profile] = (None, "replay crate failed to build: " + open(lf, errors="replace").read()[-300:].replace("\n", " | "))
            continue
        exe = os.path.join(tdir, "release" if profile == "release" else "debug", "verif_replay")
        try:
            p = subprocess.run([exe, f"{job.module}::{job.name}", vec_file], capture_output=True, text=True, timeout=600)
        except subprocess.TimeoutExpired:
            out[profile] = (True, "native run did not terminate within 600 s")
            continue
        open(lf, "a").write(p.stdout + p.stderr)
        msg = ""
        m = re.search(r"REPLAY-PANIC: (.*)", p.stdout, re.S)
        if m:
            msg = " ".join(m.group(1).split())[:300]
        if p.returncode == 3:
            out[profile] = (True, msg or "panic")
        elif p.returncode == 0:
            out[profile] = (False, "harness completes natively on the solver's assignment")
        elif p.returncode == 4:
            out[profile] = (False, "assignment violates a harness assumption natively (stub-dependent value)")
        elif p.returncode < 0 or p.returncode in (134, 139):
            out[profile] = (True, f"process aborted (signal/abort rc={p.returncode}) " + (p.stderr[-200:].replace("\n", " | ")))
        else:
            out[profile] = (None, f"replay rc={p.returncode}: " + (p.stdout + p.stderr)[-300:].replace("\n", " | "))
    return out


def main(argv):
    import argparse

    ap = argparse.ArgumentParser()
    ap.add_argument("prop", nargs="?")
    ap.add_argument("--tier", default=os.environ.get("VERIF_TIER", "quick"))
    ap.add_argument("--only", action="append")
    ap.add_argument("--keep", action="store_true")
    ap.add_argument("--jobs", type=int, default=int(os.environ.get("VERIF_JOBS", "14")))
    ap.add_argument("--mem", type=float, default=float(os.environ.get("VERIF_MEM_GB", "50")))
    ap.add_argument("--replay")
    ap.add_argument("--no-evidence", action="store_true")
    ap.add_argument("--list", action="store_true")
    a = ap.parse_args(argv)
    if a.replay:
        return replay_file(a.replay)
    if a.list:
        for pid, p in PROPERTIES.items():
            for h in p["harnesses"]:
                print(pid, h["name"], h["tiers"], h.get("timeout"), h.get("mem_gb"))
        return 0
    prop = a.prop
    if prop not in PROPERTIES:
        log(f"unknown property {prop}; claimed: {sorted(PROPERTIES)}")
        return 2
    tier = a.tier if a.tier in ("quick", "thorough") else "quick"
    try:
        seed = int(os.environ.get("VERIF_SEED", "0"))
    except ValueError:
        seed = 0
    return run_property(prop, tier, seed, a)


def select(pdef, tier, seed, only):
    hs = []
    for h in pdef["harnesses"]:
        if only:
            if h["name"] in only:
                hs.append(h)
            continue
        if tier in h["tiers"]:
            hs.append(h)
    # seed-rotated families: quick runs one member chosen by seed, thorough runs all
    if not only and tier == "quick":
        fams = {}
        for h in hs:
            if h.get("family"):
                fams.setdefault(h["family"], []).append(h)
        for fam, members in fams.items():
            keep = members[seed % len(members)]
            hs = [h for h in hs if h.get("family") != fam or h is keep]
    return hs


def run_property(prop, tier, seed, a):
    t0 = time.time()
    pdef = PROPERTIES[prop]
    workdir = os.path.join(VERIF, ".work", f"{prop}-{tier}-{os.getpid()}")
    os.makedirs(workdir, exist_ok=True)
    gen_dir = os.path.join(workdir, "gen")
    os.makedirs(gen_dir, exist_ok=True)
    findings = [f for f in load_findings() if f["property"] == prop]
    open_f = [f for f in findings if f["status"] == "open"]
    cfgs = [f["exclude_cfg"] for f in open_f if f.get("exclude_cfg")]
    rc_final = 0
    native_info = {}
    violations = []
    inconclusive = []
    known_lines = []
    try:
        if REPO != "/repo":
            relocate_crates(workdir)
            log(f"NOTE: checking {REPO} instead of /repo (VERIF_REPO set)")
        repo_rev = subprocess.run(["git", "-C", REPO, "rev-parse", "HEAD"], capture_output=True, text=True).stdout.strip()
        repo_dirty = bool(subprocess.run(["git", "-C", REPO, "status", "--porcelain", "--untracked-files=no"], capture_output=True, text=True).stdout.strip())
        write_replay_dispatch(gen_dir)
        # native preparation (tables regenerated from the current tree; fixture validation)
        need_native = pdef.get("native_prepare") or findings
        bindir = None
        if need_native:
            bindir = build_native(workdir)
        for step in pdef.get("native_prepare", []):
            rc, out, err = run_native(bindir, "verif_native", step["args"] + [gen_dir])
            native_info[step["name"]] = {"rc": rc, "out": out.strip().splitlines()[-5:]}
            if rc != 0:
                if step.get("violation_on_fail"):
                    rp = write_replay(prop, step["name"], {"native_step": step["name"], "args": step["args"], "output": out[-2000:]})
                    violations.append((step["name"], out.strip().splitlines()[-1] if out.strip() else "native step failed", rp))
                else:
                    inconclusive.append((step["name"], "native preparation failed: " + (err or out)[-300:]))
        hs = select(pdef, tier, seed, a.only)
        jobs = [Job(prop, h, tier, workdir, gen_dir, cfgs) for h in hs]
        log(f"== {prop} tier={tier} seed={seed}: {len(jobs)} harnesses, repo {repo_rev[:8]}{'+dirty' if repo_dirty else ''}")
        # a failed native preparation step is reported (inconclusive) but never replaces the solver checks
        schedule(jobs, a.jobs, a.mem)
        results = [j.result for j in jobs if j.result]
        # oracle dependencies: a property harness only counts if its oracle equivalences passed
        by_name = {r["harness"]: r for r in results}
        lock = threading.Lock()

        def handle_cex(j):
            r = j.result
            log(f"  counterexample in {j.name}: {r['why']} — replaying natively")
            tests = j.playback()
            if not tests:
                with lock:
                    inconclusive.append((j.name, "counterexample but no concrete playback vector could be extracted"))
                return
            reproduced = None
            for t in tests[:4]:
                rep = native_replay(j, t["vals"], workdir)
                r.setdefault("replays", []).append({"check": t["desc"], "vals": t["vals"], "native": {k: list(v) for k, v in rep.items()}})
                if any(v[0] for v in rep.values()):
                    reproduced = (t, rep)
                    break
            with lock:
                if reproduced:
                    t, rep = reproduced
                    rp = write_replay(prop, j.name, {
                        "harness": f"{j.module}::{j.name}", "failed_check": r["failed"][0],
                        "playback_check": t["desc"], "concrete_vals": t["vals"],
                        "native": {k: {"reproduced": v[0], "message": v[1]} for k, v in rep.items()},
                        "cfgs": j.cfgs, "repo_rev": repo_rev, "repo_dirty": repo_dirty})
                    violations.append((j.name, r["why"] + " | " + "; ".join(f"{k}: {v[1]}" for k, v in rep.items()), rp))
                else:
                    inconclusive.append((j.name, "solver counterexample did not reproduce natively (stub/harness mismatch?) : " + r["why"]))

        cex_threads = []
        for j in jobs:
            r = j.result
            if not r:
                continue
            if r["verdict"] == "counterexample":
                t = threading.Thread(target=handle_cex, args=(j,), daemon=True)
                t.start()
                cex_threads.append(t)
                while sum(1 for x in cex_threads if x.is_alive()) >= 6:
                    time.sleep(1)
            elif r["verdict"] == "inconclusive":
                inconclusive.append((j.name, r["why"]))
        for t in cex_threads:
            t.join()
        for j in jobs:
            for dep in j.spec.get("deps", []):
                d = by_name.get(dep)
                if d is not None and d["verdict"] != "pass" and j.result and j.result["verdict"] == "pass":
                    inconclusive.append((j.name, f"depends on oracle harness {dep} which did not pass"))
        # known findings: replay each concrete witness natively (dev profile)
        for f in findings:
            stills, errs = [], []
            for wid in f.get("witness_ids", []):
                rc, out, err = run_native(bindir, "verif_native", ["finding", wid])
                if rc == 3:
                    stills.append(wid)
                elif rc != 0:
                    errs.append(wid + ": " + (out + err)[-200:])
            if f["status"] == "open":
                if stills:
                    known_lines.append(f"KNOWN-FINDING: property={prop} {f['id']}: {f['what']}")
                else:
                    log(f"  note: open finding {f['id']} no longer reproduces")
            else:  # fixed: regression guard, suppresses nothing
                if stills:
                    rp = write_replay(prop, "finding-" + f["id"], {"finding": f, "witnesses_failing": stills})
                    violations.append(("finding-" + f["id"], "previously fixed defect is back: " + f["what"], rp))
            if errs:
                inconclusive.append(("finding-" + f["id"], "witness replay failed to run: " + "; ".join(errs)))
        for l in known_lines:
            log(l)
        for name, why, rp in violations:
            log(f"VIOLATION property={prop} replay={rp}")
            log(f"  harness={name}: {why}")
        for name, why in inconclusive:
            log(f"INCONCLUSIVE property={prop} harness={name}: {why}")
        if violations:
            rc_final = 1
        elif inconclusive:
            rc_final = 2
        if not a.no_evidence and not a.only and REPO == "/repo":
            write_evidence(prop, tier, seed, pdef, jobs, native_info, findings, known_lines, violations, inconclusive,
                           time.time() - t0, repo_rev, repo_dirty)
        log(f"== {prop} {tier}: {'PASS' if rc_final == 0 else ('VIOLATION' if rc_final == 1 else 'INCONCLUSIVE')} in {time.time() - t0:.0f} s")
    finally:
        if not a.keep:
            shutil.rmtree(workdir, ignore_errors=True)
            try:
                os.rmdir(os.path.join(VERIF, ".work"))
            except OSError:
                pass
    return rc_final


def write_replay(prop, name, payload):
    d = os.environ.get("VERIF_REPLAY_DIR") or os.path.join(VERIF, "replays")
    os.makedirs(d, exist_ok=True)
    h = hashlib.sha1(json.dumps(payload, sort_keys=True, default=str).encode()).hexdigest()[:10]
    p = os.path.join(d, f"{prop}-{name}-{h}.json")
    payload = dict(payload, property=prop)
    json.dump(payload, open(p, "w"), indent=1, default=str)
    return p


def write_replay_dispatch(gen_dir):
    """name → harness fn table used by the native replay binary (replay_native/src/main.rs)."""
    lines = ["pub fn dispatch(name: &str) -> bool {", "    match name {"]
    seen = set()
    for pid, p in PROPERTIES.items():
        for h in p["harnesses"]:
            full = f"{h['module']}::{h['name']}"
            if full in seen:
                continue
            seen.add(full)
            for c in h.get("cfgs", []):
                lines.append(f"        #[cfg({c})]")
            lines.append(f"        \"{full}\" => a5_verif_kani::{full}(),")
    lines += ["        _ => return false,", "    }", "    true", "}"]
    open(os.path.join(gen_dir, "replay_dispatch.rs"), "w").write("\n".join(lines) + "\n")


def replay_file(path):
    d = json.load(open(path))
    log(json.dumps({k: d[k] for k in d if k in ("property", "harness", "failed_check", "native", "finding", "native_step")}, indent=1))
    if "concrete_vals" not in d:
        return 0
    prop = d["property"]
    mod, name = d["harness"].split("::")
    spec = [h for h in PROPERTIES[prop]["harnesses"] if h["name"] == name][0]
    workdir = os.path.join(VERIF, ".work", f"replay-{os.getpid()}")
    gen_dir = os.path.join(workdir, "gen")
    os.makedirs(gen_dir, exist_ok=True)
    try:
        write_replay_dispatch(gen_dir)
        for step in PROPERTIES[prop].get("native_prepare", []):
            bindir = build_native(workdir)
            run_native(bindir, "verif_native", step["args"] + [gen_dir])
        j = Job(prop, spec, "quick", workdir, gen_dir, d.get("cfgs", []))
        j.cfgs = d.get("cfgs", [])
        rep = native_replay(j, d["concrete_vals"], workdir)
        for k, v in rep.items():
            log(f"replay {k}: reproduced={v[0]} {v[1]}")
        return 1 if any(v[0] for v in rep.values()) else 0
    finally:
        shutil.rmtree(workdir, ignore_errors=True)


def write_evidence(prop, tier, seed, pdef, jobs, native_info, findings, known_lines, violations, inconclusive, wall, repo_rev, repo_dirty):
    hs = []
    obligations = 0
    discharged = 0
    solver_s = 0.0
    n_pass = 0
    samples = []
    for j in jobs:
        r = j.result or {}
        s = j.spec
        obligations += r.get("checks_total", 0) + len(r.get("covers", []))
        discharged += r.get("checks_success", 0) + sum(1 for c in r.get("covers", []) if c["status"] == "SATISFIED")
        solver_s += r.get("solver_s") or 0.0
        if r.get("verdict") == "pass":
            n_pass += 1
        hs.append({
            "harness": f"{j.module}::{j.name}",
            "statement": s.get("statement", ""),
            "functions_encoded": s.get("functions", []),
            "assumptions": s.get("assumes", []),
            "stubs": r.get("stubs", []),
            "bounds": s.get("bounds", ""),
            "unwindset": r.get("unwindset", []),
            "exhaustive_over_inputs": bool(s.get("exhaustive", False)),
            "verdict": r.get("verdict"),
            "why": r.get("why", ""),
            "checks_total": r.get("checks_total", 0),
            "checks_success": r.get("checks_success", 0),
            "ignored_non_rust_failures": len(r.get("ignored_failed", [])),
            "covers": r.get("covers", []),
            "sat_variables": r.get("variables"),
            "sat_clauses": r.get("clauses"),
            "solver_s": r.get("solver_s"),
            "wall_s": r.get("wall_s"),
            "peak_rss_gb": r.get("peak_rss_gb"),
            "replays": r.get("replays", []),
        })
        samples.append({"harness": j.name, "obligation": s.get("statement", ""), "bounds": s.get("bounds", ""),
                        "verdict": r.get("verdict")})
    ev = {
        "property_id": prop,
        "tier": tier,
        "seed": seed,
        "level": "model_checking",
        "coverage": {
            "evaluations": len(jobs),
            "distinct_nontrivial": n_pass,
            "rule": "one evaluation = one solver query (Kani proof harness → CBMC → CaDiCaL) over symbolic inputs within the stated bounds; "
                    "distinct_nontrivial counts harnesses that returned SUCCESSFUL with all unwinding assertions discharged and every kani::cover! vacuity witness satisfied",
            "samples": samples,
            "obligations": obligations,
            "discharged": discharged,
            "checker_cmd": "cargo kani --harness <module>::<name> --exact -Z stubbing --no-assertion-reach-checks -Z unstable-options --no-overflow-checks [--cbmc-args --unwindset …] (Kani 0.68.0, CBMC 6.11.0, CaDiCaL)",
            "trusted_base": pdef.get("trusted_base", []) + ["Kani 0.68.0 / CBMC 6.11.0 / CaDiCaL", "rustc MIR → GOTO translation by kani-compiler"],
            "exhaustive": bool(jobs) and all(j.spec.get("exhaustive") for j in jobs),
            "explanation": pdef.get("explanation", ""),
            "outside_claim": pdef.get("outside_claim", []),
            "harnesses": hs,
            "solver_seconds_total": round(solver_s, 1),
            "native_steps": native_info,
            "known_findings": [{"id": f["id"], "status": f["status"], "what": f["what"]} for f in findings],
            "known_finding_lines": known_lines,
            "inconclusive": [{"harness": n, "why": w} for n, w in inconclusive],
            "repo_rev": repo_rev,
            "repo_dirty": repo_dirty,
            "encoding": "regenerated on this run from /repo's working tree (Kani compiles the path dependency)",
        },
        "assumptions": pdef.get("assumptions", []),
        "wall_s": round(wall, 1),
        "violations": len(violations),
    }
    d = os.path.join(VERIF, "evidence")
    os.makedirs(d, exist_ok=True)
    json.dump(ev, open(os.path.join(d, prop + ".json"), "w"), indent=1)


if __name__ == "__main__":
    sys.exit(main(sys.argv[1:]))
