#!/bin/sh
# usage: runall.sh quick|thorough [props...]  — run the registered checks one property at a time
tier=${1:-quick}; shift
props=${@:-"C04 C05 C06 C07 C08 C09 C10 C14 C17 C18 C20"}
cd "$(dirname "$0")"
for p in $props; do
  start=$(date +%s)
  ./check $p --tier $tier > /tmp/exp/all_${tier}_$p.log 2>&1
  rc=$?
  echo "$p rc=$rc wall=$(( $(date +%s) - start ))s"
done
