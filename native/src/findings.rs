//! Concrete witnesses of known findings (see /verif/known_findings.json).
//! exit 3 = the defect is present (the witness still fails), 0 = it does not fail.
use a5::core::serialization::*;
use a5::core::utils::A5Cell;
use std::panic::catch_unwind;

fn q(face: u8, seg: usize) -> u64 {
    serialize(&A5Cell { origin_id: face, segment: seg, s: 0, resolution: 1 }).unwrap()
}
fn base(face: u8) -> u64 {
    serialize(&A5Cell { origin_id: face, segment: 0, s: 0, resolution: 0 }).unwrap()
}
fn canonical(y: u64) -> bool {
    match deserialize(y) {
        Ok(c) => matches!(serialize(&c), Ok(z) if z == y),
        Err(_) => false,
    }
}

/// returns true if the defect shows
fn witness(id: &str) -> Option<bool> {
    Some(match id {
        // C10: five quintants of face 1 + base cell of face 6 are not merged
        "c10-maximal-lowres-interleave" => {
            let mut v: Vec<u64> = (0..5).map(|s| q(1, s)).collect();
            v.push(base(6));
            let out = a5::compact(&v).unwrap();
            let left = (0..5).filter(|&s| out.contains(&q(1, s))).count();
            println!("compact({{5 quintants of face 1, base cell 6}}) = {:x?}", out);
            left == 5
        }
        // C10: merged parent appended out of order below r=2 ⇒ compact(compact(x)) ≠ compact(x) as a vector
        "c10-idempotent-lowres-order" => {
            let mut w = vec![];
            for c in 0..4u64 { w.push((c << 58) | (1u64 << 56)); }
            for c in 5..10u64 { w.push((c << 58) | (1u64 << 56)); }
            let o1 = a5::compact(&w).unwrap();
            let o2 = a5::compact(&o1).unwrap();
            println!("compact = {:x?}\ncompact∘compact = {:x?}", o1, o2);
            o1 != o2 || o1.windows(2).any(|p| p[0] > p[1])
        }
        "c14-get-num-cells-overflow" => {
            let r = catch_unwind(|| a5::get_num_cells(31));
            println!("get_num_cells(31) = {:?}", r);
            match r { Err(_) => true, Ok(_) => false }
        }
        "c14-children-res29-none" => {
            let r = catch_unwind(|| a5::cell_to_children(0b10, None));
            println!("cell_to_children(res-29 cell, None) = {:?}", r);
            match r { Err(_) => true, Ok(Ok(v)) => v.iter().any(|&y| !canonical(y)), Ok(Err(_)) => false }
        }
        "c14-lookup-res30" => {
            let r = catch_unwind(|| a5::lonlat_to_cell(a5::LonLat::new(10.0, 20.0), 30));
            println!("lonlat_to_cell(.,30) = {:?}", r);
            match r { Err(_) => true, Ok(Ok(y)) => !canonical(y) || a5::get_resolution(y) != 30, Ok(Err(_)) => false }
        }
        "c14-lookup-res-minus2" => {
            let r = catch_unwind(|| a5::lonlat_to_cell(a5::LonLat::new(10.0, 20.0), -2));
            println!("lonlat_to_cell(.,-2) = {:?}", r);
            match r { Err(_) => true, Ok(Ok(_)) => true, Ok(Err(_)) => false }
        }
        "c14-lookup-res-max" => {
            let r = catch_unwind(|| a5::lonlat_to_cell(a5::LonLat::new(10.0, 20.0), i32::MAX));
            println!("lonlat_to_cell(., i32::MAX) = {:?}", r);
            match r { Err(_) => true, Ok(Ok(_)) => true, Ok(Err(_)) => false }
        }
        "c14-uncompact-min" => {
            let r = catch_unwind(|| a5::uncompact(&[2], i32::MIN));
            println!("uncompact([res-29 cell], i32::MIN) = {:?}", r);
            match r { Err(_) => true, Ok(Ok(_)) => true, Ok(Err(_)) => false }
        }
        "c14-uncompact-target-40" => {
            let id = serialize(&A5Cell { origin_id: 3, segment: 1, s: 2, resolution: 2 }).unwrap();
            let r = catch_unwind(|| a5::uncompact(&[id], 40));
            println!("uncompact([res-2 cell], 40) = {:?}", r.as_ref().map(|x| x.as_ref().map(|v| v.len())));
            match r { Err(_) => true, Ok(Ok(_)) => true, Ok(Err(_)) => false }
        }
        "c14-compact-overflow-top6" => {
            let g: Vec<u64> = (60..64u64).map(|c| (c << 58) | (1u64 << 56)).chain(std::iter::once(u64::MAX - 1)).collect();
            let r = catch_unwind(|| a5::compact(&g));
            println!("compact(codes 60..63 + 1) = {:?}", r);
            r.is_err()
        }
        "c14-parent-echo-noncanonical" => {
            // bit 0 set below the marker: same resolution requested ⇒ must not be echoed verbatim
            let x = q(2, 1) | 1;
            let r = a5::cell_to_parent(x, Some(1));
            println!("cell_to_parent({:x}, Some(1)) = {:x?}", x, r);
            match r { Ok(y) => !canonical(y), Err(_) => false }
        }
        "c14-children-echo-noncanonical" => {
            let x = q(2, 1) | 1;
            let r = a5::cell_to_children(x, Some(1));
            println!("cell_to_children({:x}, Some(1)) = {:x?}", x, r);
            match r { Ok(v) => v.iter().any(|&y| !canonical(y)), Err(_) => false }
        }
        "c14-uncompact-echo-malformed" => {
            let bad = 0xF100_0000_0000_0000u64; // top-6 code 60: not a cell
            let r = a5::uncompact(&[bad], 1);
            println!("uncompact([{:x}], 1) = {:x?}", bad, r);
            let alias = q(2, 1) | 1;
            let r2 = a5::uncompact(&[alias], 1);
            println!("uncompact([{:x}], 1) = {:x?}", alias, r2);
            matches!(r, Ok(_)) || matches!(r2, Ok(ref v) if v.iter().any(|&y| !canonical(y)))
        }
        _ => return None,
    })
}

pub fn run(id: &str) -> i32 {
    // silence the default panic message of expected panics
    std::panic::set_hook(Box::new(|i| println!("  (panic: {})", i)));
    match witness(id) {
        Some(true) => {
            println!("finding {}: STILL FAILS", id);
            3
        }
        Some(false) => {
            println!("finding {}: does not fail", id);
            0
        }
        None => {
            println!("unknown finding id {}", id);
            2
        }
    }
}
