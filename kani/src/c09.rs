//! C09 — uncompact returns exactly the descendants at the target resolution.
use crate::common::*;
use a5::core::cell_info::get_num_children;
use a5::core::serialization::*;

/// ∀ valid cell(−1..29) c, ∀ t ∈ −1..29 with t ≤ res c: uncompact(&[c], t) = [c] if t = res c, else Err.
#[kani::proof]
#[kani::unwind(32)]
#[kani::stub(alloc::fmt::format, fmt_stub)]
#[kani::stub(a5::core::serialization::get_resolution, res_stub)]
pub fn c09_single_flat() {
    warm();
    let c = any_valid_cell_res(-1, 29);
    let id = ser(&c);
    let t: i32 = kani::any();
    kani::assume(t >= -1 && t <= c.resolution);
    match a5::uncompact(&[id], t) {
        Ok(v) => {
            assert!(t == c.resolution);
            assert!(v.len() == 1 && v[0] == id);
            assert!(get_num_children(c.resolution, t) == 1);
            kani::cover!(c.resolution == -1);
            kani::cover!(c.resolution == 29);
            core::mem::forget(v);
        }
        Err(_) => {
            assert!(t < c.resolution);
            kani::cover!(t == -1 && c.resolution == 29);
        }
    }
}

/// Contract model of `cell_to_children` for the same-resolution call on a canonical ID — the only
/// call uncompact makes in the fan-out-1 class. The contract ("returns exactly [x]") is proved on
/// the real function by `c09_children_same`; replacing the callee by its contract here is what makes
/// *lists* tractable (two real callee instances already exceed 30 GB).
pub fn children_same_model(index: u64, child_resolution: Option<i32>) -> Result<Vec<u64>, String> {
    let r = res_stub(index);
    match child_resolution {
        Some(t) if t == r && spec_valid(index) => Ok(vec![index]),
        _ => {
            // outside the modelled class: the harness must not reach it
            assert!(false, "children_same_model used outside its contract");
            Err(String::new())
        }
    }
}

/// Contract model for the same-resolution call and for one level down from a cell of resolution ≥ 1
/// (four children by the bit-level child rule; contract proved on the real function by
/// `c07_children_d1`, which asserts `children(c, r+1)[i] = spec_child(c, i)`).
pub fn children_d1_model(index: u64, child_resolution: Option<i32>) -> Result<Vec<u64>, String> {
    let r = res_stub(index);
    match child_resolution {
        Some(t) if t == r && spec_valid(index) => Ok(vec![index]),
        Some(t) if t == r + 1 && r >= 1 && spec_valid(index) => Ok(vec![
            spec_child(index, 0),
            spec_child(index, 1),
            spec_child(index, 2),
            spec_child(index, 3),
        ]),
        _ => {
            assert!(false, "children_d1_model used outside its contract");
            Err(String::new())
        }
    }
}

/// Lists of three with mixed fan-outs: each input is at the target resolution t (fan-out 1), one
/// level coarser (fan-out 4, resolution ≥ 1) or finer (error): Ok iff none is finer; the output is
/// the concatenation of the per-input expansions in input order, its length the sum of the fan-outs.
#[kani::proof]
#[kani::unwind(32)]
#[kani::stub(alloc::fmt::format, fmt_stub)]
#[kani::stub(a5::core::serialization::get_resolution, res_stub)]
#[kani::stub(a5::core::serialization::cell_to_children, children_d1_model)]
pub fn c09_list3_mixed() {
    warm();
    let t: i32 = kani::any();
    kani::assume(t >= 2 && t <= 29);
    let mut ids = [0u64; 3];
    let mut fan = [0usize; 3];
    let mut finer = false;
    let mut k = 0;
    while k < 3 {
        let c = any_valid_cell_res(1, 29);
        kani::assume(c.resolution >= t - 1);
        ids[k] = ser(&c);
        if c.resolution > t {
            finer = true;
        }
        fan[k] = if c.resolution == t { 1 } else { 4 };
        k += 1;
    }
    match a5::uncompact(&ids, t) {
        Ok(v) => {
            assert!(!finer);
            assert!(v.len() == fan[0] + fan[1] + fan[2]);
            // element j of input k sits at offset fan[0..k] + j
            let which: usize = kani::any();
            let j: usize = kani::any();
            kani::assume(which < 3 && j < fan[which]);
            let off = if which == 0 { 0 } else if which == 1 { fan[0] } else { fan[0] + fan[1] };
            let want = if fan[which] == 1 { ids[which] } else { spec_child(ids[which], j as u64) };
            assert!(v[off + j] == want);
            kani::cover!(fan[0] == 4 && fan[1] == 1 && fan[2] == 4);
            kani::cover!(v.len() == 12);
            core::mem::forget(v);
        }
        Err(_) => {
            assert!(finer);
            kani::cover!(true);
        }
    }
}

/// ∀ valid cell(−1..29): cell_to_children(c, Some(res c)) = [c] (the contract used by the list harness).
#[kani::proof]
#[kani::unwind(32)]
#[kani::stub(alloc::fmt::format, fmt_stub)]
#[kani::stub(a5::core::serialization::get_resolution, res_stub)]
pub fn c09_children_same() {
    warm();
    let c = any_valid_cell_res(-1, 29);
    let id = ser(&c);
    match cell_to_children(id, Some(c.resolution)) {
        Ok(v) => {
            assert!(v.len() == 1 && v[0] == id);
            core::mem::forget(v);
        }
        Err(_) => assert!(false),
    }
    kani::cover!(c.resolution == -1);
    kani::cover!(c.resolution == 29);
}

/// Lists of three: ∀ valid cells a, b, c, ∀ t ∈ −1..29 with t ≤ every resolution: Ok([a, b, c]) in
/// input order iff all three are exactly at t; Err (nothing returned) iff any of them — first,
/// middle or last — is finer. uncompact itself is the real code; its callee is the contract model.
#[kani::proof]
#[kani::unwind(32)]
#[kani::stub(alloc::fmt::format, fmt_stub)]
#[kani::stub(a5::core::serialization::get_resolution, res_stub)]
#[kani::stub(a5::core::serialization::cell_to_children, children_same_model)]
pub fn c09_list3_flat() {
    warm();
    let a = any_valid_cell_res(-1, 29);
    let b = any_valid_cell_res(-1, 29);
    let c = any_valid_cell_res(-1, 29);
    let ia = ser(&a);
    let ib = ser(&b);
    let ic = ser(&c);
    let t: i32 = kani::any();
    kani::assume(t >= -1 && t <= a.resolution && t <= b.resolution && t <= c.resolution);
    match a5::uncompact(&[ia, ib, ic], t) {
        Ok(v) => {
            assert!(t == a.resolution && t == b.resolution && t == c.resolution);
            assert!(v.len() == 3 && v[0] == ia && v[1] == ib && v[2] == ic);
            kani::cover!(ia > ib && ib > ic);
            kani::cover!(ia == ic);
            core::mem::forget(v);
        }
        Err(_) => {
            assert!(t < a.resolution || t < b.resolution || t < c.resolution);
            kani::cover!(t < a.resolution && t == b.resolution && t == c.resolution);
            kani::cover!(t == a.resolution && t < b.resolution && t == c.resolution);
            kani::cover!(t == a.resolution && t == b.resolution && t < c.resolution);
        }
    }
}

/// ∀ valid cell(1..28) c: uncompact(&[c], r+1) = cell_to_children(c, r+1) element-wise, 4 entries =
/// get_num_children; each of resolution r+1 with ancestor c; uncompact(&[c], r−1) is Err.
#[kani::proof]
#[kani::unwind(32)]
#[kani::stub(alloc::fmt::format, fmt_stub)]
#[kani::stub(a5::core::serialization::get_resolution, res_stub)]
pub fn c09_single_d1() {
    warm();
    let c = any_valid_cell_res(1, 28);
    let id = ser(&c);
    let t = c.resolution + 1;
    let a = match a5::uncompact(&[id], t) {
        Ok(v) => v,
        Err(_) => {
            assert!(false);
            return;
        }
    };
    let b = match cell_to_children(id, Some(t)) {
        Ok(v) => v,
        Err(_) => {
            assert!(false);
            return;
        }
    };
    assert!(a.len() == 4 && b.len() == 4);
    assert!(get_num_children(c.resolution, t) == 4);
    let i: usize = kani::any();
    kani::assume(i < 4);
    assert!(a[i] == b[i]);
    assert!(res_stub(a[i]) == t);
    assert!(par(a[i], c.resolution) == id);
    assert!(a5::uncompact(&[id], c.resolution - 1).is_err());
    kani::cover!(c.resolution == 28 && i == 3);
    core::mem::forget(a);
    core::mem::forget(b);
}

/// Input order across inputs of different fan-out: a at r (4 children) followed by b at r+1 (itself),
/// and the reverse order: outputs are concatenated in input order.
#[kani::proof]
#[kani::unwind(32)]
#[kani::stub(alloc::fmt::format, fmt_stub)]
#[kani::stub(a5::core::serialization::get_resolution, res_stub)]
pub fn c09_pair_d1() {
    warm();
    let a = any_valid_cell_res(1, 28);
    let b = any_valid_cell_res(2, 29);
    kani::assume(b.resolution == a.resolution + 1);
    let ia = ser(&a);
    let ib = ser(&b);
    let t = b.resolution;
    let first_a: bool = kani::any();
    let input = if first_a { [ia, ib] } else { [ib, ia] };
    let v = match a5::uncompact(&input, t) {
        Ok(v) => v,
        Err(_) => {
            assert!(false);
            return;
        }
    };
    assert!(v.len() == 5);
    let i: usize = kani::any();
    kani::assume(i < 4);
    if first_a {
        assert!(v[4] == ib);
        assert!(par(v[i], a.resolution) == ia && res_stub(v[i]) == t);
    } else {
        assert!(v[0] == ib);
        assert!(par(v[i + 1], a.resolution) == ia && res_stub(v[i + 1]) == t);
    }
    // a finer third party makes the whole call fail
    kani::cover!(first_a);
    kani::cover!(!first_a);
    core::mem::forget(v);
}

/// World class: uncompact(&[world], 0) = the 12 base cells in face order.
#[kani::proof]
#[kani::unwind(32)]
#[kani::stub(alloc::fmt::format, fmt_stub)]
#[kani::stub(a5::core::serialization::get_resolution, res_stub)]
pub fn c09_world() {
    warm();
    let w = match a5::uncompact(&[WORLD_CELL], 0) {
        Ok(v) => v,
        Err(_) => {
            assert!(false);
            return;
        }
    };
    assert!(w.len() == 12);
    let i: usize = kani::any();
    kani::assume(i < 12);
    assert!(res_stub(w[i]) == 0 && (w[i] >> 58) == i as u64 && spec_valid(w[i]));
    // the world cell itself: fan-out 1, and nothing is coarser
    match a5::uncompact(&[WORLD_CELL], -1) {
        Ok(v) => {
            assert!(v.len() == 1 && v[0] == WORLD_CELL);
            core::mem::forget(v);
        }
        Err(_) => assert!(false),
    }
    kani::cover!(i == 11);
    core::mem::forget(w);
}

/// World class, two levels in one call: uncompact(&[world], 1) = the 60 quintant cells, face-major,
/// pairwise distinct, each canonical of resolution 1 (added for seeded change c07-world-res1-twelve,
/// which returns only 12 of them and which c09_world — target 0 — cannot see).
#[kani::proof]
#[kani::unwind(62)]
#[kani::stub(alloc::fmt::format, fmt_stub)]
#[kani::stub(a5::core::serialization::get_resolution, res_stub)]
pub fn c09_world_r1() {
    warm();
    let w = match a5::uncompact(&[WORLD_CELL], 1) {
        Ok(v) => v,
        Err(_) => {
            assert!(false);
            return;
        }
    };
    assert!(w.len() == 60);
    let a: usize = kani::any();
    let b: usize = kani::any();
    kani::assume(a < 60 && b < 60 && a != b);
    kani::cover!(a == 59 && b == 0);
    assert!(w[a] != w[b]);
    assert!(res_stub(w[a]) == 1 && spec_valid(w[a]));
    // face-major: the top-6-bit quintant code of entry a belongs to face a / 5
    assert!(((w[a] >> 58) / 5) as usize == a / 5);
    core::mem::forget(w);
}

/// Base class: ∀ face: uncompact(&[base f], 1) = its 5 quintants.
#[kani::proof]
#[kani::unwind(32)]
#[kani::stub(alloc::fmt::format, fmt_stub)]
#[kani::stub(a5::core::serialization::get_resolution, res_stub)]
pub fn c09_base() {
    warm();
    let c = any_valid_cell_res(0, 0);
    let id = ser(&c);
    let q = match a5::uncompact(&[id], 1) {
        Ok(v) => v,
        Err(_) => {
            assert!(false);
            return;
        }
    };
    assert!(q.len() == 5);
    let j: usize = kani::any();
    let k: usize = kani::any();
    kani::assume(j < 5 && k < 5 && j != k);
    assert!(q[j] != q[k]);
    assert!(res_stub(q[j]) == 1 && spec_covers(id, q[j]) && spec_valid(q[j]));
    kani::cover!(c.origin_id == 11);
    core::mem::forget(q);
}
