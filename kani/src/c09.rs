//! C09 — uncompact returns exactly the descendants at the target resolution.
use crate::common::*;
use a5::core::cell_info::get_num_children;
use a5::core::serialization::*;

/// ∀ valid cell(−1..29) c, ∀ t ∈ −1..29 with t ≤ res c: uncompact(&[c], t) = [c] if t = res c, else Err.
#[kani::proof]
#[kani::unwind(32)]
#[kani::stub(alloc::fmt::format, fmt_stub)]
#[kani::stub(a5::core::serialization::get_resolution, res_stub)]
pub fn c09_single_flat() {
    warm();
    let c = any_valid_cell_res(-1, 29);
    let id = ser(&c);
    let t: i32 = kani::any();
    kani::assume(t >= -1 && t <= c.resolution);
    match a5::uncompact(&[id], t) {
        Ok(v) => {
            assert!(t == c.resolution);
            assert!(v.len() == 1 && v[0] == id);
            assert!(get_num_children(c.resolution, t) == 1);
            kani::cover!(c.resolution == -1);
            kani::cover!(c.resolution == 29);
            core::mem::forget(v);
        }
        Err(_) => {
            assert!(t < c.resolution);
            kani::cover!(t == -1 && c.resolution == 29);
        }
    }
}

/// ∀ two valid cells a, b, ∀ t ≤ min(res) or equal: Ok([a, b]) in input order iff t = res a = res b;
/// Err (nothing returned) iff either input is finer than t.
#[kani::proof]
#[kani::unwind(32)]
#[kani::stub(alloc::fmt::format, fmt_stub)]
#[kani::stub(a5::core::serialization::get_resolution, res_stub)]
pub fn c09_pair_flat() {
    warm();
    let a = any_valid_cell_res(-1, 29);
    let b = any_valid_cell_res(-1, 29);
    let ia = ser(&a);
    let ib = ser(&b);
    let t: i32 = kani::any();
    kani::assume(t >= -1 && t <= a.resolution && t <= b.resolution);
    match a5::uncompact(&[ia, ib], t) {
        Ok(v) => {
            assert!(t == a.resolution && t == b.resolution);
            assert!(v.len() == 2 && v[0] == ia && v[1] == ib);
            kani::cover!(ia > ib);
            kani::cover!(ia == ib);
            core::mem::forget(v);
        }
        Err(_) => {
            assert!(t < a.resolution || t < b.resolution);
            kani::cover!(t == a.resolution && t < b.resolution);
            kani::cover!(t < a.resolution && t == b.resolution);
        }
    }
}

/// ∀ valid cell(1..28) c: uncompact(&[c], r+1) = cell_to_children(c, r+1) element-wise, 4 entries =
/// get_num_children; each of resolution r+1 with ancestor c; uncompact(&[c], r−1) is Err.
#[kani::proof]
#[kani::unwind(32)]
#[kani::stub(alloc::fmt::format, fmt_stub)]
#[kani::stub(a5::core::serialization::get_resolution, res_stub)]
pub fn c09_single_d1() {
    warm();
    let c = any_valid_cell_res(1, 28);
    let id = ser(&c);
    let t = c.resolution + 1;
    let a = match a5::uncompact(&[id], t) {
        Ok(v) => v,
        Err(_) => {
            assert!(false);
            return;
        }
    };
    let b = match cell_to_children(id, Some(t)) {
        Ok(v) => v,
        Err(_) => {
            assert!(false);
            return;
        }
    };
    assert!(a.len() == 4 && b.len() == 4);
    assert!(get_num_children(c.resolution, t) == 4);
    let i: usize = kani::any();
    kani::assume(i < 4);
    assert!(a[i] == b[i]);
    assert!(res_stub(a[i]) == t);
    assert!(par(a[i], c.resolution) == id);
    assert!(a5::uncompact(&[id], c.resolution - 1).is_err());
    kani::cover!(c.resolution == 28 && i == 3);
    core::mem::forget(a);
    core::mem::forget(b);
}

/// Input order across inputs of different fan-out: a at r (4 children) followed by b at r+1 (itself),
/// and the reverse order: outputs are concatenated in input order.
#[kani::proof]
#[kani::unwind(32)]
#[kani::stub(alloc::fmt::format, fmt_stub)]
#[kani::stub(a5::core::serialization::get_resolution, res_stub)]
pub fn c09_pair_d1() {
    warm();
    let a = any_valid_cell_res(1, 28);
    let b = any_valid_cell_res(2, 29);
    kani::assume(b.resolution == a.resolution + 1);
    let ia = ser(&a);
    let ib = ser(&b);
    let t = b.resolution;
    let first_a: bool = kani::any();
    let input = if first_a { [ia, ib] } else { [ib, ia] };
    let v = match a5::uncompact(&input, t) {
        Ok(v) => v,
        Err(_) => {
            assert!(false);
            return;
        }
    };
    assert!(v.len() == 5);
    let i: usize = kani::any();
    kani::assume(i < 4);
    if first_a {
        assert!(v[4] == ib);
        assert!(par(v[i], a.resolution) == ia && res_stub(v[i]) == t);
    } else {
        assert!(v[0] == ib);
        assert!(par(v[i + 1], a.resolution) == ia && res_stub(v[i + 1]) == t);
    }
    // a finer third party makes the whole call fail
    kani::cover!(first_a);
    kani::cover!(!first_a);
    core::mem::forget(v);
}

/// World class: uncompact(&[world], 0) = the 12 base cells in face order.
#[kani::proof]
#[kani::unwind(32)]
#[kani::stub(alloc::fmt::format, fmt_stub)]
#[kani::stub(a5::core::serialization::get_resolution, res_stub)]
pub fn c09_world() {
    warm();
    let w = match a5::uncompact(&[WORLD_CELL], 0) {
        Ok(v) => v,
        Err(_) => {
            assert!(false);
            return;
        }
    };
    assert!(w.len() == 12);
    let i: usize = kani::any();
    kani::assume(i < 12);
    assert!(res_stub(w[i]) == 0 && (w[i] >> 58) == i as u64 && spec_valid(w[i]));
    // the world cell itself: fan-out 1, and nothing is coarser
    match a5::uncompact(&[WORLD_CELL], -1) {
        Ok(v) => {
            assert!(v.len() == 1 && v[0] == WORLD_CELL);
            core::mem::forget(v);
        }
        Err(_) => assert!(false),
    }
    kani::cover!(i == 11);
    core::mem::forget(w);
}

/// Base class: ∀ face: uncompact(&[base f], 1) = its 5 quintants.
#[kani::proof]
#[kani::unwind(32)]
#[kani::stub(alloc::fmt::format, fmt_stub)]
#[kani::stub(a5::core::serialization::get_resolution, res_stub)]
pub fn c09_base() {
    warm();
    let c = any_valid_cell_res(0, 0);
    let id = ser(&c);
    let q = match a5::uncompact(&[id], 1) {
        Ok(v) => v,
        Err(_) => {
            assert!(false);
            return;
        }
    };
    assert!(q.len() == 5);
    let j: usize = kani::any();
    let k: usize = kani::any();
    kani::assume(j < 5 && k < 5 && j != k);
    assert!(q[j] != q[k]);
    assert!(res_stub(q[j]) == 1 && spec_covers(id, q[j]) && spec_valid(q[j]));
    kani::cover!(c.origin_id == 11);
    core::mem::forget(q);
}
