//! C10 — compaction is maximal, idempotent and canonical (real `compact`, guard on).
use crate::c08::{any_sorted_cells, assume_unique_mode, covered_by};
use crate::common::*;
use a5::core::serialization::*;

fn assume_antichain<const N: usize>(v: &[u64; N]) {
    let mut i = 0;
    while i < N {
        let mut j = 0;
        while j < N {
            if i != j {
                kani::assume(!spec_covers(v[i], v[j]));
            }
            j += 1;
        }
        i += 1;
    }
}

fn fanout(rp: i32) -> usize {
    if rp == -1 {
        12
    } else if rp == 0 {
        5
    } else {
        4
    }
}

/// ∀ non-overlapping strictly increasing N-tuple of valid cells, ∀ valid parent p (symbolic):
/// the output never contains every child of p. (Output elements are pairwise distinct — C08 — so
/// "number of output cells one level below p and covered by p" = fan-out ⇔ the group is complete.)
fn max_body<const N: usize>(lo: i32, hi: i32, extra: bool) {
    warm();
    assume_unique_mode();
    let input = any_sorted_cells::<N>(lo, hi);
    assume_antichain::<N>(&input);
    let out = match a5::compact(&input) {
        Ok(v) => v,
        Err(_) => {
            assert!(false);
            return;
        }
    };
    let p: u64 = kani::any();
    kani::assume(spec_valid(p));
    let rp = res_stub(p);
    kani::assume(rp <= 28);
    let mut cnt = 0usize;
    let mut i = 0;
    while i < N {
        if i < out.len() && res_stub(out[i]) == rp + 1 && spec_covers(p, out[i]) {
            cnt += 1;
        }
        i += 1;
    }
    assert!(cnt < fanout(rp));
    kani::cover!(out.len() < N);
    kani::cover!(cnt + 1 == fanout(rp));
    // the result is in numeric order (hence pairwise distinct) and still non-overlapping
    let a: usize = kani::any();
    let b: usize = kani::any();
    if extra && a < out.len() && b < out.len() && a < b {
        assert!(out[a] < out[b]);
        assert!(!spec_covers(out[a], out[b]) && !spec_covers(out[b], out[a]));
    }
    core::mem::forget(out);
}

macro_rules! c10_max {
    ($name:ident, $n:expr, $lo:expr, $hi:expr) => {
        #[kani::proof]
        #[kani::unwind(14)]
        #[kani::stub(alloc::fmt::format, fmt_stub)]
        #[kani::stub(core::slice::sort::unstable::sort, sort_inner_small)]
        #[kani::stub(a5::core::serialization::get_resolution, res_stub)]
        pub fn $name() {
            max_body::<$n>($lo, $hi, false);
        }
    };
}
c10_max!(c10_max_4, 4, 0, 29);

/// Same harness with `cell_to_parent` replaced by its contract model (`parent_model`, proved equal
/// to the real function on every canonical cell by `oracle_parent_equiv`): compact's own logic is
/// the real code, the decode/re-encode inside the callee — the memory hog — is not re-executed.
macro_rules! c10_max_m {
    ($name:ident, $n:expr, $lo:expr, $hi:expr) => {
        #[kani::proof]
        #[kani::unwind(14)]
        #[kani::stub(alloc::fmt::format, fmt_stub)]
        #[kani::stub(core::slice::sort::unstable::sort, sort_inner_small)]
        #[kani::stub(a5::core::serialization::get_resolution, res_stub)]
        #[kani::stub(a5::core::serialization::cell_to_parent, parent_model)]
        pub fn $name() {
            max_body::<$n>($lo, $hi, $n <= 4);
        }
    };
}
c10_max_m!(c10_max_4m, 4, 0, 29);
c10_max_m!(c10_max_5m, 5, 0, 29);
c10_max_m!(c10_max_6m, 6, 0, 29);
c10_max_m!(c10_max_7m, 7, 0, 29);

c10_max!(c10_max_5, 5, 0, 29);
c10_max!(c10_max_5_hi, 5, 2, 29);

/// Low-resolution family: every non-overlapping set of N cells of resolution ≤ 1 (base cells and
/// quintants of any faces — where numeric ID order does *not* follow the hierarchy): the output is
/// maximal (no complete quintant group of any face, symbolic parent) and numerically sorted.
fn lowres_body<const N: usize>() {
    warm();
    assume_unique_mode();
    let input = any_sorted_cells::<N>(0, 1);
    assume_antichain::<N>(&input);
    let out = match a5::compact(&input) {
        Ok(v) => v,
        Err(_) => {
            assert!(false);
            return;
        }
    };
    let p: u64 = kani::any();
    kani::assume(spec_valid(p));
    let rp = res_stub(p);
    kani::assume(rp <= 0);
    let mut cnt = 0usize;
    let mut i = 0;
    while i < N {
        if i < out.len() && res_stub(out[i]) == rp + 1 && spec_covers(p, out[i]) {
            cnt += 1;
        }
        i += 1;
    }
    assert!(cnt < fanout(rp));
    let a: usize = kani::any();
    kani::assume(a < out.len() && a + 1 < out.len());
    assert!(out[a] < out[a + 1]);
    // coverage is preserved as well
    let y: u64 = kani::any();
    kani::assume(spec_valid(y) && res_stub(y) == 1);
    assert!(covered_by::<N>(&input, y) == covered_by::<N>(&out, y));
    kani::cover!(out.len() == 2 && N == 6);
    kani::cover!(out.len() == N);
    core::mem::forget(out);
}

#[kani::proof]
#[kani::unwind(14)]
#[kani::stub(alloc::fmt::format, fmt_stub)]
#[kani::stub(core::slice::sort::unstable::sort, sort_inner_small)]
#[kani::stub(a5::core::serialization::get_resolution, res_stub)]
pub fn c10_lowres_6() {
    lowres_body::<6>();
}

/// The interleaving class in two symbols: ∀ faces f ≠ g: compact({five quintants of f, base cell of
/// g}) = {base f, base g} in numeric order. The six IDs are built bit-level from the documented
/// layout and handed over unsorted (compact's own sort runs through the bounded sort stub).
#[kani::proof]
#[kani::unwind(14)]
#[kani::stub(alloc::fmt::format, fmt_stub)]
#[kani::stub(core::slice::sort::unstable::sort, sort_inner_small)]
#[kani::stub(a5::core::serialization::get_resolution, res_stub)]
pub fn c10_lowres_fg() {
    warm();
    assume_unique_mode();
    let f: u64 = kani::any();
    let g: u64 = kani::any();
    kani::assume(f < 12 && g < 12 && f != g);
    let base_f = (f << 58) | (1u64 << 57);
    let base_g = (g << 58) | (1u64 << 57);
    let mut arr = [0u64; 6];
    let mut n = 0;
    while n < 5 {
        arr[n] = ((5 * f + n as u64) << 58) | (1u64 << 56);
        n += 1;
    }
    arr[5] = base_g;
    let out = match a5::compact(&arr) {
        Ok(v) => v,
        Err(_) => {
            assert!(false);
            return;
        }
    };
    assert!(out.len() == 2, "five quintants of one face plus a base cell of another face must merge");
    if base_f < base_g {
        assert!(out[0] == base_f && out[1] == base_g);
    } else {
        assert!(out[0] == base_g && out[1] == base_f);
    }
    kani::cover!(g == 6 && f == 1);
    kani::cover!(g < f);
    core::mem::forget(out);
}

/// Idempotence: compact(compact(x)) = compact(x) as vectors (the second call sees whatever order
/// the first produced; its own sort is the identity stub, so an out-of-order first result shows).
fn idem_body<const N: usize>(lo: i32, hi: i32) {
    warm();
    assume_unique_mode();
    let input = any_sorted_cells::<N>(lo, hi);
    assume_antichain::<N>(&input);
    let o1 = match a5::compact(&input) {
        Ok(v) => v,
        Err(_) => {
            assert!(false);
            return;
        }
    };
    // the result is sorted (documented: "parents maintain sorted order")
    let a: usize = kani::any();
    kani::assume(a < o1.len() && a + 1 < o1.len());
    assert!(o1[a] < o1[a + 1]);
    let o2 = match a5::compact(&o1) {
        Ok(v) => v,
        Err(_) => {
            assert!(false);
            return;
        }
    };
    assert!(o2.len() == o1.len());
    let i: usize = kani::any();
    kani::assume(i < o1.len());
    assert!(o2[i] == o1[i]);
    kani::cover!(o1.len() < N);
    core::mem::forget(o1);
    core::mem::forget(o2);
}

macro_rules! c10_idem {
    ($name:ident, $n:expr, $lo:expr, $hi:expr) => {
        #[kani::proof]
        #[kani::unwind(14)]
        #[kani::stub(alloc::fmt::format, fmt_stub)]
        #[kani::stub(core::slice::sort::unstable::sort, sort_inner_small)]
        #[kani::stub(a5::core::serialization::get_resolution, res_stub)]
        pub fn $name() {
            idem_body::<$n>($lo, $hi);
        }
    };
}
c10_idem!(c10_idem_4, 4, 0, 29);

macro_rules! c10_idem_m {
    ($name:ident, $n:expr, $lo:expr, $hi:expr) => {
        #[kani::proof]
        #[kani::unwind(14)]
        #[kani::stub(alloc::fmt::format, fmt_stub)]
        #[kani::stub(core::slice::sort::unstable::sort, sort_inner_small)]
        #[kani::stub(a5::core::serialization::get_resolution, res_stub)]
        #[kani::stub(a5::core::serialization::cell_to_parent, parent_model)]
        pub fn $name() {
            idem_body::<$n>($lo, $hi);
        }
    };
}
c10_idem_m!(c10_idem_4m, 4, 0, 29);
c10_idem_m!(c10_idem_5m, 5, 0, 29);
c10_idem_m!(c10_idem_6m, 6, 0, 29);
c10_idem!(c10_idem_4_hi, 4, 2, 29);

/// Canonical form, inductive step: splitting one input cell (resolution ≥ 1) into its four
/// children does not change the compacted set. K = N + 3.
fn split_body<const N: usize>() {
    let kk = N + 3;
    warm();
    assume_unique_mode();
    let input = any_sorted_cells::<N>(1, 28);
    assume_antichain::<N>(&input);
    let idx: usize = kani::any();
    kani::assume(idx < N);
    // children of input[idx] by the bit-level child rule (proved by oracle_child_equiv)
    let x = input[idx];
    let mut split = [0u64; 8];
    let mut i = 0;
    let mut w = 0;
    while i < N {
        if i == idx {
            let mut k = 0;
            while k < 4 {
                split[w] = spec_child(x, k as u64);
                w += 1;
                k += 1;
            }
        } else {
            split[w] = input[i];
            w += 1;
        }
        i += 1;
    }
    // numeric order at resolution ≥ 1 follows the hierarchy (C20), so the split list is still sorted
    let mut j = 1;
    while j < 8 {
        if j < kk {
            assert!(split[j - 1] < split[j]);
        }
        j += 1;
    }
    let o1 = match a5::compact(&input) {
        Ok(v) => v,
        Err(_) => {
            assert!(false);
            return;
        }
    };
    let o2 = match a5::compact(&split[..kk]) {
        Ok(v) => v,
        Err(_) => {
            assert!(false);
            return;
        }
    };
    assert!(o1.len() == o2.len());
    let t: usize = kani::any();
    kani::assume(t < o1.len());
    assert!(o1[t] == o2[t]);
    // the split list was merged back (the children of the split cell are gone)
    kani::cover!(o2.len() < kk);
    core::mem::forget(o1);
    core::mem::forget(o2);
}

#[kani::proof]
#[kani::unwind(14)]
#[kani::stub(alloc::fmt::format, fmt_stub)]
#[kani::stub(core::slice::sort::unstable::sort, sort_inner_small)]
#[kani::stub(a5::core::serialization::get_resolution, res_stub)]
pub fn c10_split_1() {
    split_body::<1>();
}

#[kani::proof]
#[kani::unwind(14)]
#[kani::stub(alloc::fmt::format, fmt_stub)]
#[kani::stub(core::slice::sort::unstable::sort, sort_inner_small)]
#[kani::stub(a5::core::serialization::get_resolution, res_stub)]
pub fn c10_split_2() {
    split_body::<2>();
}

#[kani::proof]
#[kani::unwind(14)]
#[kani::stub(alloc::fmt::format, fmt_stub)]
#[kani::stub(core::slice::sort::unstable::sort, sort_inner_small)]
#[kani::stub(a5::core::serialization::get_resolution, res_stub)]
#[kani::stub(a5::core::serialization::cell_to_parent, parent_model)]
pub fn c10_split_2m() {
    split_body::<2>();
}

#[kani::proof]
#[kani::unwind(14)]
#[kani::stub(alloc::fmt::format, fmt_stub)]
#[kani::stub(core::slice::sort::unstable::sort, sort_inner_small)]
#[kani::stub(a5::core::serialization::get_resolution, res_stub)]
#[kani::stub(a5::core::serialization::cell_to_parent, parent_model)]
pub fn c10_split_3m() {
    split_body::<3>();
}

#[kani::proof]
#[kani::unwind(14)]
#[kani::stub(alloc::fmt::format, fmt_stub)]
#[kani::stub(core::slice::sort::unstable::sort, sort_inner_small)]
#[kani::stub(a5::core::serialization::get_resolution, res_stub)]
#[kani::stub(a5::core::serialization::cell_to_parent, parent_model)]
pub fn c10_split_1m() {
    split_body::<1>();
}
