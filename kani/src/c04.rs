//! C04 (metadata sentence only): cell_area(r)·N(r) = authalic Earth area; N(r) follows the hierarchy.
#[kani::proof]
#[kani::unwind(34)]
pub fn c04_table() {
    let r: i32 = kani::any();
    kani::assume(r >= 0 && r <= 29);
    let n_exact: u64 = if r == 0 { 12 } else { 60u64 << (2 * (r as u32 - 1)) };
    let n = n_exact as f64;
    let total = a5::cell_area(-1);
    assert!(total == 510065624779439.1);
    let d = a5::cell_area(r) * n - total;
    assert!(d <= 1e-9 * total && d >= -1e-9 * total);
    let got = a5::get_num_cells(r);
    if r <= 27 {
        assert!(got == n_exact);
    } else {
        // the release returns JS-rounded values at 28, 29: within 1e-15 relative
        let diff = if got > n_exact { got - n_exact } else { n_exact - got };
        assert!((diff as f64) <= 1e-15 * n);
    }
    // areas strictly decrease with resolution and quarter from level 1 on
    if r >= 1 && r < 29 {
        let q = a5::cell_area(r) / a5::cell_area(r + 1);
        assert!(q > 3.999999 && q < 4.000001);
    }
    kani::cover!(r == 29);
    kani::cover!(r == 0);
}

/// History independence of the metadata calls: after both calls have been used for two *arbitrary*
/// earlier resolutions (any i32, in either order of the two functions), the table sentence still
/// holds for r — a memo or "step from the last answer" optimisation keyed too coarsely shows here.
#[kani::proof]
#[kani::unwind(34)]
pub fn c04_table_seq() {
    let r0: i32 = kani::any();
    let r1: i32 = kani::any();
    let _ = a5::cell_area(r0);
    let _ = a5::get_num_cells(r1);
    let _ = a5::get_num_cells(r0);
    let _ = a5::cell_area(r1);
    let r: i32 = kani::any();
    kani::assume(r >= 0 && r <= 29);
    let n_exact: u64 = if r == 0 { 12 } else { 60u64 << (2 * (r as u32 - 1)) };
    let total = a5::cell_area(-1);
    assert!(total == 510065624779439.1);
    let d = a5::cell_area(r) * (n_exact as f64) - total;
    assert!(d <= 1e-9 * total && d >= -1e-9 * total);
    let got = a5::get_num_cells(r);
    if r <= 27 {
        assert!(got == n_exact);
    }
    kani::cover!(r0 == r + 32);
    kani::cover!(r1 > r && r1 <= 27);
}

/// ∀ resolutions outside 0..29 the metadata call still returns a finite positive area
/// (world area below 0) and never panics.
#[kani::proof]
#[kani::unwind(34)]
pub fn c04_table_low() {
    let r: i32 = kani::any();
    kani::assume(r < 0);
    assert!(a5::cell_area(r) == 510065624779439.1);
    assert!(a5::get_num_cells(r) == 0);
    kani::cover!(r == i32::MIN);
}
