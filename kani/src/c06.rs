//! C06 (labelling chain only): ID ↔ (face, quintant, orientation, anchor) ↔ lattice position is
//! equal to the frozen copy of the reference release (v0.6.2) for all inputs within bounds.
use crate::common::*;
use a5::core::hilbert as h;
use a5::core::serialization::*;
use a5_ref::core::hilbert as hr;
use a5_ref::core::serialization as sr;

fn warm2() {
    warm();
    let _ = a5_ref::core::origin::get_origins();
}

/// ∀ u64: deserialize ≡ reference (Ok/Err and all fields).
#[kani::proof]
#[kani::unwind(32)]
#[kani::stub(alloc::fmt::format, fmt_stub)]
pub fn c06_decode() {
    warm2();
    let x: u64 = kani::any();
    let a = deserialize(x);
    let b = sr::deserialize(x);
    match (a, b) {
        (Ok(c), Ok(d)) => {
            assert!(c.origin_id == d.origin_id && c.segment == d.segment && c.s == d.s && c.resolution == d.resolution);
            kani::cover!(c.resolution == 29);
        }
        (Err(_), Err(_)) => {
            kani::cover!(true);
        }
        _ => assert!(false, "decode Ok/Err differs from the reference"),
    }
    assert!(get_resolution(x) == sr::get_resolution(x));
}

/// ∀ valid cell(−1..29): serialize gives the reference's u64.
#[kani::proof]
#[kani::unwind(32)]
#[kani::stub(alloc::fmt::format, fmt_stub)]
pub fn c06_encode() {
    warm2();
    let c = any_valid_cell_res(-1, 29);
    let d = a5_ref::core::utils::A5Cell {
        origin_id: c.origin_id,
        segment: c.segment,
        s: c.s,
        resolution: c.resolution,
    };
    let a = serialize(&c);
    let b = sr::serialize(&d);
    match (a, b) {
        (Ok(x), Ok(y)) => assert!(x == y),
        _ => assert!(false),
    }
    kani::cover!(c.resolution == 29);
    kani::cover!(c.resolution == 1);
}

fn ori(k: u8) -> (h::Orientation, hr::Orientation) {
    match k {
        0 => (h::Orientation::UV, hr::Orientation::UV),
        1 => (h::Orientation::VU, hr::Orientation::VU),
        2 => (h::Orientation::UW, hr::Orientation::UW),
        3 => (h::Orientation::WU, hr::Orientation::WU),
        4 => (h::Orientation::VW, hr::Orientation::VW),
        _ => (h::Orientation::WV, hr::Orientation::WV),
    }
}

fn same_ori(a: h::Orientation, b: hr::Orientation) -> bool {
    let mut k = 0u8;
    while k < 6 {
        let (x, y) = ori(k);
        if x == a {
            return y == b;
        }
        k += 1;
    }
    false
}

/// ∀ (face, k) ∈ 12×5: both relabelling maps give the reference's (index, orientation); the face
/// tables (first quintant, quaternion, angle, axis) are bit-equal to the reference's.
#[kani::proof]
#[kani::unwind(14)]
pub fn c06_relabel() {
    warm2();
    let f: usize = kani::any();
    let q: usize = kani::any();
    kani::assume(f < 12 && q < 5);
    let o = &a5::core::origin::get_origins()[f];
    let or = &a5_ref::core::origin::get_origins()[f];
    let (s1, o1) = a5::core::origin::quintant_to_segment(q, o);
    let (s2, o2) = a5_ref::core::origin::quintant_to_segment(q, or);
    assert!(s1 == s2 && same_ori(o1, o2));
    let (q1, p1) = a5::core::origin::segment_to_quintant(q, o);
    let (q2, p2) = a5_ref::core::origin::segment_to_quintant(q, or);
    assert!(q1 == q2 && same_ori(p1, p2));
    assert!(o.first_quintant == or.first_quintant && o.id == or.id);
    let mut k = 0;
    while k < 4 {
        assert!(o.quat[k].to_bits() == or.quat[k].to_bits());
        assert!(o.inverse_quat[k].to_bits() == or.inverse_quat[k].to_bits());
        k += 1;
    }
    assert!(o.angle.get().to_bits() == or.angle.get().to_bits());
    assert!(o.axis.theta().get().to_bits() == or.axis.theta().get().to_bits());
    assert!(o.axis.phi().get().to_bits() == or.axis.phi().get().to_bits());
    kani::cover!(f == 11 && q == 4);
}

/// ∀ s < 4^n, 6 orientations: same Anchor (k, offset bits, flips) as the reference.
fn anchor_body(n: usize, k: u8) {
    let s: u64 = kani::any();
    kani::assume(s < (1u64 << (2 * n)));
    let (o, or) = ori(k);
    let a = h::s_to_anchor(s, n, o);
    let b = hr::s_to_anchor(s, n, or);
    assert!(a.k == b.k && a.flips == b.flips);
    assert!(a.offset.x().to_bits() == b.offset.x().to_bits() && a.offset.y().to_bits() == b.offset.y().to_bits());
    kani::cover!(s == (1u64 << (2 * n)) - 1);
    core::mem::forget(a);
    core::mem::forget(b);
}

fn anchor_all(n: usize) {
    let k: u8 = kani::any();
    kani::assume(k < 6);
    anchor_body(n, k);
}

macro_rules! c06_anchor {
    ($name:ident, $n:expr, $unw:expr) => {
        #[kani::proof]
        #[kani::unwind($unw)]
        pub fn $name() {
            anchor_all($n);
        }
    };
}
c06_anchor!(c06_anchor_n2, 2, 8);
c06_anchor!(c06_anchor_n4, 4, 8);
c06_anchor!(c06_anchor_n6, 6, 10);
c06_anchor!(c06_anchor_n8, 8, 12);
c06_anchor!(c06_anchor_n10, 10, 14);
c06_anchor!(c06_anchor_n12, 12, 16);

/// Metadata tables: get_num_cells / cell_area for r ∈ −1..30 equal the reference's (out-of-range
/// behaviour is excluded so that a repair of it is not flagged).
#[kani::proof]
#[kani::unwind(34)]
pub fn c06_tables() {
    let r: i32 = kani::any();
    kani::assume(r >= -1 && r <= 30);
    assert!(a5::get_num_cells(r) == a5_ref::get_num_cells(r));
    assert!(a5::cell_area(r).to_bits() == a5_ref::cell_area(r).to_bits());
    let i: usize = kani::any();
    kani::assume(i < 12);
    let mut k = 0;
    while k < 4 {
        assert!(
            a5::core::dodecahedron_quaternions::QUATERNIONS[i][k].to_bits()
                == a5_ref::core::dodecahedron_quaternions::QUATERNIONS[i][k].to_bits()
        );
        k += 1;
    }
    // degree→radian factor on concrete points, bit-equal in both crates
    let pts = [180.0f64, 90.0, 1.0, -93.0, 57.29577951308232, 1e-300];
    let mut t = 0;
    while t < 6 {
        let a = a5::core::coordinate_transforms::deg_to_rad(a5::Degrees::new_unchecked(pts[t]));
        let b = a5_ref::core::coordinate_transforms::deg_to_rad(a5_ref::Degrees::new_unchecked(pts[t]));
        assert!(a.get().to_bits() == b.get().to_bits());
        t += 1;
    }
    kani::cover!(r == 30);
}

/// ∀ finite lon: the longitude leg of from_lon_lat is bit-equal to the reference's.
pub fn deg_identity_ref_stub(d: a5_ref::Degrees) -> a5_ref::Radians {
    a5_ref::Radians::new_unchecked(d.get())
}

pub fn authalic_ref_stub(_p: &a5_ref::projections::authalic::AuthalicProjection, _phi: a5_ref::Radians) -> a5_ref::Radians {
    let v: f64 = kani::any();
    a5_ref::Radians::new_unchecked(v)
}

#[kani::proof]
#[kani::unwind(14)]
#[kani::stub(a5::projections::authalic::AuthalicProjection::forward, crate::c18::authalic_stub)]
#[kani::stub(a5_ref::projections::authalic::AuthalicProjection::forward, authalic_ref_stub)]
#[kani::stub(a5::core::coordinate_transforms::deg_to_rad, crate::c18::deg_identity_stub)]
#[kani::stub(a5_ref::core::coordinate_transforms::deg_to_rad, deg_identity_ref_stub)]
pub fn c06_lon_offset() {
    let lon: f64 = kani::any();
    kani::assume(lon.is_finite());
    let a = a5::core::coordinate_transforms::from_lon_lat(a5::LonLat::new(lon, 0.0));
    let b = a5_ref::core::coordinate_transforms::from_lon_lat(a5_ref::LonLat::new(lon, 0.0));
    assert!(a.theta().get().to_bits() == b.theta().get().to_bits());
    kani::cover!(lon < -180.0);
}
