//! C18 (frame and relabelling; nearest-face selection is outside this technique's reach).
use crate::common::*;
use a5::core::origin::*;
use a5::LonLat;

/// ∀ face<12, q<5: quintant↔segment relabelling is a bijection preserving the orientation both ways.
#[kani::proof]
#[kani::unwind(14)]
pub fn c18_relabel() {
    warm();
    let f: usize = kani::any();
    let q: usize = kani::any();
    kani::assume(f < 12 && q < 5);
    let o = &get_origins()[f];
    assert!(o.id as usize == f);
    assert!(o.first_quintant == QF[f]);
    let (seg, ori) = quintant_to_segment(q, o);
    assert!(seg < 5);
    let (q2, ori2) = segment_to_quintant(seg, o);
    assert!(q2 == q && ori2 == ori);
    let (q3, ori3) = segment_to_quintant(q, o);
    assert!(q3 < 5);
    let (s3, ori4) = quintant_to_segment(q3, o);
    assert!(s3 == q && ori3 == ori4);
    // permutation: a second quintant maps to a different segment
    let p: usize = kani::any();
    kani::assume(p < 5 && p != q);
    let (segp, _) = quintant_to_segment(p, o);
    assert!(segp != seg);
    let (qp, _) = segment_to_quintant(p, o);
    assert!(qp != q3);
    kani::cover!(f == 11 && q == 4);
    kani::cover!(f == 3);
}

/// Same statement after the relabelling functions have already been used on *another* face: the
/// answer for (face, quintant) must not depend on earlier calls (two faces, both query orders).
#[kani::proof]
#[kani::unwind(14)]
pub fn c18_relabel_seq() {
    warm();
    let f1: usize = kani::any();
    let q1: usize = kani::any();
    let f2: usize = kani::any();
    let q2: usize = kani::any();
    kani::assume(f1 < 12 && q1 < 5 && f2 < 12 && q2 < 5);
    let o1 = &get_origins()[f1];
    let o2 = &get_origins()[f2];
    // first use: face 1
    let (s1, r1) = quintant_to_segment(q1, o1);
    let (qq1, rr1) = segment_to_quintant(s1, o1);
    assert!(qq1 == q1 && rr1 == r1);
    // then face 2
    let (s2, r2) = quintant_to_segment(q2, o2);
    let (qq2, rr2) = segment_to_quintant(s2, o2);
    assert!(qq2 == q2 && rr2 == r2);
    // and face 1 again: same answers as the first time
    let (s1b, r1b) = quintant_to_segment(q1, o1);
    let (qq1b, rr1b) = segment_to_quintant(s1b, o1);
    assert!(s1b == s1 && r1b == r1 && qq1b == q1 && rr1b == r1);
    kani::cover!(f1 != f2 && q1 == q2);
    kani::cover!(f1 == 3 && f2 == 9);
}

fn centre(q: [f64; 4]) -> [f64; 3] {
    // rotate (0,0,1) by the unit quaternion [x,y,z,w]
    let (x, y, z, w) = (q[0], q[1], q[2], q[3]);
    [2.0 * (x * z + w * y), 2.0 * (y * z - w * x), 1.0 - 2.0 * (x * x + y * y)]
}

fn near(v: f64, t: f64) -> bool {
    (v - t) < 1e-12 && (t - v) < 1e-12
}

/// ∀ face pairs (i, j): centre_i·centre_j ∈ {1, −1, ±1/√5}; = 1 iff i = j; exactly one antipode;
/// face 0 is the north pole; unit quaternions; inverse_quat is the conjugate.
#[kani::proof]
#[kani::unwind(14)]
pub fn c18_frame() {
    warm();
    let o = get_origins();
    assert!(o.len() == 12);
    let i: usize = kani::any();
    let j: usize = kani::any();
    kani::assume(i < 12 && j < 12);
    let a = centre(o[i].quat);
    let b = centre(o[j].quat);
    let d = a[0] * b[0] + a[1] * b[1] + a[2] * b[2];
    let c = 0.4472135954999579_f64; // 1/sqrt(5) = cos 63.435°
    assert!(near(d, 1.0) || near(d, -1.0) || near(d, c) || near(d, -c));
    if i == j {
        assert!(near(d, 1.0));
    } else {
        assert!(!near(d, 1.0));
    }
    // exactly one antipode per face
    let mut anti = 0;
    let mut k = 0;
    while k < 12 {
        let e = centre(o[k].quat);
        let dd = a[0] * e[0] + a[1] * e[1] + a[2] * e[2];
        if near(dd, -1.0) {
            anti += 1;
        }
        k += 1;
    }
    assert!(anti == 1);
    // and five neighbours 63.435° away
    let mut nb = 0;
    k = 0;
    while k < 12 {
        let e = centre(o[k].quat);
        let dd = a[0] * e[0] + a[1] * e[1] + a[2] * e[2];
        if near(dd, c) {
            nb += 1;
        }
        k += 1;
    }
    assert!(nb == 5);
    let q = o[i].quat;
    let n2 = q[0] * q[0] + q[1] * q[1] + q[2] * q[2] + q[3] * q[3];
    assert!(near(n2, 1.0));
    let iq = o[i].inverse_quat;
    assert!(iq[0] == -q[0] && iq[1] == -q[1] && iq[2] == -q[2] && iq[3] == q[3]);
    let n0 = centre(o[0].quat);
    assert!(n0[0] == 0.0 && n0[1] == 0.0 && n0[2] == 1.0);
    kani::cover!(near(d, -1.0));
    kani::cover!(near(d, -c));
}

/// The axis angles stored with each face agree with the documented frame: pole, ring at the
/// interhedral angle 63.435° with 72° spacing, second ring offset by 36° at 116.565°, south pole —
/// in the curve order of the faces.
#[kani::proof]
#[kani::unwind(14)]
pub fn c18_axis_table() {
    warm();
    let o = get_origins();
    let i: usize = kani::any();
    kani::assume(i < 12);
    let th = o[i].axis.theta().get();
    let ph = o[i].axis.phi().get();
    let ih = 1.1071487177940904_f64;
    let pi = core::f64::consts::PI;
    let t5 = core::f64::consts::TAU / 5.0;
    let p5 = pi / 5.0;
    // original (pre-reorder) index → (theta, phi); ORIGIN_ORDER = [0,1,2,4,3,5,7,8,6,11,10,9]
    const ORDER: [usize; 12] = [0, 1, 2, 4, 3, 5, 7, 8, 6, 11, 10, 9];
    let orig = ORDER[i];
    let (eth, eph) = if orig == 0 {
        (0.0, 0.0)
    } else if orig == 11 {
        (0.0, pi)
    } else {
        let ring = (orig - 1) / 2;
        let alpha = (ring as f64) * t5;
        if (orig - 1) % 2 == 0 {
            (alpha, ih)
        } else {
            (alpha + p5, pi - ih)
        }
    };
    assert!(near(th, eth) && near(ph, eph));
    assert!(o[i].id as usize == i);
    kani::cover!(i == 9);
}

/// ∀ finite longitude: from_lon_lat(lon, ·).theta = (lon + 93)·π/180 bit-exactly (the documented
/// 93-degree offset).
pub fn deg_identity_stub(d: a5::Degrees) -> a5::Radians {
    a5::Radians::new_unchecked(d.get())
}

pub fn authalic_stub(_p: &a5::projections::authalic::AuthalicProjection, _phi: a5::Radians) -> a5::Radians {
    let v: f64 = kani::any();
    a5::Radians::new_unchecked(v)
}

#[kani::proof]
#[kani::unwind(14)]
#[kani::stub(a5::projections::authalic::AuthalicProjection::forward, authalic_stub)]
#[kani::stub(a5::core::coordinate_transforms::deg_to_rad, deg_identity_stub)]
pub fn c18_offset() {
    let lon: f64 = kani::any();
    let lat: f64 = kani::any();
    kani::assume(lon.is_finite() && lat >= -90.0 && lat <= 90.0);
    let s = a5::core::coordinate_transforms::from_lon_lat(LonLat::new(lon, lat));
    // deg_to_rad is replaced by the identity for this harness, so θ must be exactly lon + 93: the
    // documented offset and its plumbing. The conversion factor is pinned on exact points by
    // c18_deg_to_rad_points (a symbolic double multiply inside the property does not terminate in SAT).
    assert!(s.theta().get().to_bits() == (lon + 93.0).to_bits());
    kani::cover!(lon == -93.0);
    kani::cover!(lon > 1e300);
}

/// The degree→radian factor on exact points (concrete inputs, folded by symbolic execution):
/// 180° ↦ π, 90° ↦ π/2, 0 ↦ 0, −180° ↦ −π; and through from_lon_lat: −93° ↦ θ = 0, 87° ↦ θ = π.
#[kani::proof]
#[kani::unwind(14)]
#[kani::stub(a5::projections::authalic::AuthalicProjection::forward, authalic_stub)]
pub fn c18_deg_to_rad_points() {
    use a5::core::coordinate_transforms::{deg_to_rad, from_lon_lat};
    use a5::Degrees;
    assert!(deg_to_rad(Degrees::new_unchecked(180.0)).get() == core::f64::consts::PI);
    assert!(deg_to_rad(Degrees::new_unchecked(90.0)).get() == core::f64::consts::FRAC_PI_2);
    assert!(deg_to_rad(Degrees::new_unchecked(0.0)).get() == 0.0);
    assert!(deg_to_rad(Degrees::new_unchecked(-180.0)).get() == -core::f64::consts::PI);
    assert!(from_lon_lat(LonLat::new(-93.0, 0.0)).theta().get() == 0.0);
    assert!(from_lon_lat(LonLat::new(87.0, 0.0)).theta().get() == core::f64::consts::PI);
    assert!(from_lon_lat(LonLat::new(-3.0, 10.0)).theta().get() == core::f64::consts::FRAC_PI_2);
    kani::cover!(true);
}
