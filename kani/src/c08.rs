//! C08 — compaction never changes the covered set of cells (real `compact`, guard on).
//! State construction (DESIGN §2.3): the input is a strictly increasing tuple of canonical IDs (one
//! arrangement per set of distinct cells), std's internal `slice::sort::unstable::sort` — the common
//! back end of every `sort_unstable*` call — ↦ a bounded insertion sort with the same contract, the
//! set model is in ASSUME_UNIQUE mode (correct for pairwise distinct elements), `get_resolution` ↦
//! its verified loop-free form.
use crate::common::*;
use a5::core::serialization::*;

pub fn assume_unique_mode() {
    #[cfg(felixpalmer_a5_rs_verif)]
    unsafe {
        a5::verif_set::ASSUME_UNIQUE = true;
    }
}

/// symbolic strictly increasing N-tuple of canonical cell IDs of resolution lo..=hi
pub fn any_sorted_cells<const N: usize>(lo: i32, hi: i32) -> [u64; N] {
    let input: [u64; N] = kani::any();
    let mut i = 0;
    while i < N {
        kani::assume(spec_valid(input[i]));
        let r = res_stub(input[i]);
        kani::assume(r >= lo && r <= hi);
        if i > 0 {
            // WLOG: compact sorts its input itself (the bounded sort stub is a real sort), so this
            // only picks one arrangement per set of distinct cells
            kani::assume(input[i - 1] < input[i]);
        }
        i += 1;
    }
    input
}

pub fn covered_by<const N: usize>(v: &[u64], y: u64) -> bool {
    let mut c = false;
    let mut i = 0;
    while i < N {
        if i < v.len() && spec_covers(v[i], y) {
            c = true;
        }
        i += 1;
    }
    c
}

fn cover_body<const N: usize>() {
    warm();
    assume_unique_mode();
    let input = any_sorted_cells::<N>(0, 29);
    let out = match a5::compact(&input) {
        Ok(v) => v,
        Err(_) => {
            assert!(false, "compact of valid cells returned Err");
            return;
        }
    };
    assert!(out.len() <= N && out.len() >= 1);
    // any finest-level cell: covered by the input ⇔ covered by the output
    let y: u64 = kani::any();
    kani::assume(spec_valid(y) && res_stub(y) == 29);
    let cin = covered_by::<N>(&input, y);
    let cout = covered_by::<N>(&out, y);
    assert!(cin == cout);
    // a merge needs at least 4 siblings
    kani::cover!(N < 4 || out.len() < N);
    kani::cover!(out.len() == N);
    kani::cover!(cin);
    kani::cover!(!cin);
    // output: valid cells, pairwise distinct
    let a: usize = kani::any();
    let b: usize = kani::any();
    kani::assume(a < out.len() && b < out.len());
    assert!(spec_valid(out[a]));
    if a != b {
        assert!(out[a] != out[b]);
    }
    core::mem::forget(out);
}

macro_rules! c08_cover {
    ($name:ident, $n:expr) => {
        #[kani::proof]
        #[kani::unwind(14)]
        #[kani::stub(alloc::fmt::format, fmt_stub)]
        #[kani::stub(core::slice::sort::unstable::sort, sort_inner_small)]
        #[kani::stub(a5::core::serialization::get_resolution, res_stub)]
        pub fn $name() {
            cover_body::<$n>();
        }
    };
}
/// Same harness with `cell_to_parent` ↦ `parent_model` (see c10.rs).
macro_rules! c08_cover_m {
    ($name:ident, $n:expr) => {
        #[kani::proof]
        #[kani::unwind(14)]
        #[kani::stub(alloc::fmt::format, fmt_stub)]
        #[kani::stub(core::slice::sort::unstable::sort, sort_inner_small)]
        #[kani::stub(a5::core::serialization::get_resolution, res_stub)]
        #[kani::stub(a5::core::serialization::cell_to_parent, parent_model)]
        pub fn $name() {
            cover_body::<$n>();
        }
    };
}
c08_cover_m!(c08_cover_4m, 4);
c08_cover_m!(c08_cover_5m, 5);
c08_cover_m!(c08_cover_6m, 6);
c08_cover_m!(c08_cover_7m, 7);
c08_cover!(c08_cover_2, 2);
c08_cover!(c08_cover_3, 3);
c08_cover!(c08_cover_4, 4);
c08_cover!(c08_cover_5, 5);

/// A group of 4 siblings (any level ≥ 2) plus nothing else must merge into the parent — the
/// "a merge happened" direction, cheap because the group is built from one symbolic parent.
#[kani::proof]
#[kani::unwind(14)]
#[kani::stub(alloc::fmt::format, fmt_stub)]
        #[kani::stub(core::slice::sort::unstable::sort, sort_inner_small)]
#[kani::stub(a5::core::serialization::get_resolution, res_stub)]
pub fn c08_group4_merges() {
    warm();
    assume_unique_mode();
    let p = any_valid_cell_res(1, 28);
    let ip = ser(&p);
    let mut input = [0u64; 4];
    let mut k = 0;
    while k < 4 {
        input[k] = ser(&a5::core::utils::A5Cell {
            origin_id: p.origin_id,
            segment: p.segment,
            s: (p.s << 2) + k as u64,
            resolution: p.resolution + 1,
        });
        k += 1;
    }
    assert!(input[0] < input[1] && input[1] < input[2] && input[2] < input[3]);
    let out = match a5::compact(&input) {
        Ok(v) => v,
        Err(_) => {
            assert!(false);
            return;
        }
    };
    // cascades at most up to the face: the output is exactly one ancestor-or-self of p that covers the same region,
    // and since the region is exactly p, it is p itself
    assert!(out.len() == 1);
    assert!(out[0] == ip);
    kani::cover!(p.resolution == 1);
    kani::cover!(p.resolution == 28);
    core::mem::forget(out);
}

/// Near-complete group: three of the four children of any parent plus one arbitrary valid cell
/// (another sibling, a descendant of the missing sibling, an ancestor, an unrelated cell …), handed
/// over unsorted: coverage is preserved — in particular no *false* merge happens — and the group is
/// merged exactly when the fourth cell is the missing sibling.
#[kani::proof]
#[kani::unwind(14)]
#[kani::stub(alloc::fmt::format, fmt_stub)]
#[kani::stub(core::slice::sort::unstable::sort, sort_inner_small)]
#[kani::stub(a5::core::serialization::get_resolution, res_stub)]
#[kani::stub(a5::core::serialization::cell_to_parent, parent_model)]
pub fn c08_near_group4() {
    warm();
    assume_unique_mode();
    let p = any_valid_cell_res(1, 28);
    let ip = ser(&p);
    let miss: u64 = kani::any();
    kani::assume(miss < 4);
    let x: u64 = kani::any();
    kani::assume(spec_valid(x) && res_stub(x) >= 0);
    let mut input = [0u64; 4];
    let mut w = 0;
    let mut k = 0u64;
    while k < 4 {
        if k != miss {
            let c = spec_child(ip, k);
            kani::assume(x != c);
            input[w] = c;
            w += 1;
        }
        k += 1;
    }
    input[3] = x;
    let out = match a5::compact(&input) {
        Ok(v) => v,
        Err(_) => {
            assert!(false);
            return;
        }
    };
    let y: u64 = kani::any();
    kani::assume(spec_valid(y) && res_stub(y) == 29);
    assert!(covered_by::<4>(&input, y) == covered_by::<4>(&out, y));
    let full = x == spec_child(ip, miss);
    if full {
        assert!(out.len() == 1 && out[0] == ip);
    } else {
        // four distinct cells of which only three are siblings: nothing can merge
        assert!(out.len() == 4);
    }
    kani::cover!(full);
    kani::cover!(!full && spec_covers(spec_child(ip, miss), x));
    kani::cover!(!full && spec_covers(x, ip));
    core::mem::forget(out);
}

fn compact_ok(v: &[u64]) -> Option<Vec<u64>> {
    match a5::compact(v) {
        Ok(o) => Some(o),
        Err(_) => {
            assert!(false, "compact of valid cells returned Err");
            None
        }
    }
}

fn any_two_cells() -> (u64, u64) {
    let a: u64 = kani::any();
    let b: u64 = kani::any();
    kani::assume(spec_valid(a) && spec_valid(b) && res_stub(a) >= 0 && res_stub(b) >= 0);
    (a, b)
}

/// Order, N = 2 fully arbitrary valid cells (unsorted, possibly equal), real set membership test,
/// bounded insertion sort with sort_unstable's contract: compact([a,b]) = compact([b,a]), sorted,
/// de-duplicated.
#[kani::proof]
#[kani::unwind(14)]
#[kani::stub(alloc::fmt::format, fmt_stub)]
#[kani::stub(core::slice::sort::unstable::sort, sort_inner_small4)]
#[kani::stub(a5::core::serialization::get_resolution, res_stub)]
#[kani::stub(a5::core::serialization::cell_to_parent, parent_model)]
pub fn c08_prelude_swap() {
    warm();
    let (a, b) = any_two_cells();
    let o1 = match compact_ok(&[a, b]) {
        Some(v) => v,
        None => return,
    };
    let o2 = match compact_ok(&[b, a]) {
        Some(v) => v,
        None => return,
    };
    assert!(o1.len() == o2.len());
    assert!(o1.len() == if a == b { 1 } else { 2 });
    let i: usize = kani::any();
    kani::assume(i < o1.len());
    assert!(o1[i] == o2[i]);
    if o1.len() == 2 {
        assert!(o1[0] < o1[1]);
        assert!(o1[0] == if a < b { a } else { b });
    }
    kani::cover!(a == b);
    kani::cover!(a > b);
    core::mem::forget(o1);
    core::mem::forget(o2);
}

/// Multiplicity: compact([a,a,b]) = compact([a,b]) (duplicates are dropped, whatever their position).
#[kani::proof]
#[kani::unwind(14)]
#[kani::stub(alloc::fmt::format, fmt_stub)]
#[kani::stub(core::slice::sort::unstable::sort, sort_inner_small4)]
#[kani::stub(a5::core::serialization::get_resolution, res_stub)]
#[kani::stub(a5::core::serialization::cell_to_parent, parent_model)]
pub fn c08_prelude_dup() {
    warm();
    let (a, b) = any_two_cells();
    let o1 = match compact_ok(&[a, b]) {
        Some(v) => v,
        None => return,
    };
    let dup_first: bool = kani::any();
    let o3 = match compact_ok(&if dup_first { [a, a, b] } else { [a, b, a] }) {
        Some(v) => v,
        None => return,
    };
    assert!(o1.len() == o3.len());
    let i: usize = kani::any();
    kani::assume(i < o1.len());
    assert!(o1[i] == o3[i]);
    kani::cover!(a != b && dup_first);
    kani::cover!(a != b && !dup_first);
    core::mem::forget(o1);
    core::mem::forget(o3);
}

/// Detector for a dropped or misplaced sort: the input is strictly *decreasing* and the sort stub
/// is "reverse" (a correct sort for such input); coverage must still be preserved and a full
/// sibling group must still merge.
fn unsorted_body<const N: usize>() {
    warm();
    assume_unique_mode();
    let inc = any_sorted_cells::<N>(0, 29);
    let mut input = [0u64; N];
    let mut i = 0;
    while i < N {
        input[i] = inc[N - 1 - i];
        i += 1;
    }
    let out = match a5::compact(&input) {
        Ok(v) => v,
        Err(_) => {
            assert!(false);
            return;
        }
    };
    let y: u64 = kani::any();
    kani::assume(spec_valid(y) && res_stub(y) == 29);
    assert!(covered_by::<N>(&input, y) == covered_by::<N>(&out, y));
    // four siblings given in decreasing order still merge
    if N == 4 && res_stub(inc[0]) >= 2 {
        let r = res_stub(inc[0]);
        let st = 1u64 << (2 * (30 - r) as u32);
        if (inc[0] & (3 * st)) == 0 && inc[1] == inc[0] + st && inc[2] == inc[0] + 2 * st && inc[3] == inc[0] + 3 * st {
            assert!(out.len() < 4);
            kani::cover!(true);
        }
    }
    core::mem::forget(out);
}

#[kani::proof]
#[kani::unwind(14)]
#[kani::stub(alloc::fmt::format, fmt_stub)]
#[kani::stub(core::slice::sort::unstable::sort, sort_inner_small)]
#[kani::stub(a5::core::serialization::get_resolution, res_stub)]
#[kani::stub(a5::core::serialization::cell_to_parent, parent_model)]
pub fn c08_unsorted_4() {
    unsorted_body::<4>();
}
