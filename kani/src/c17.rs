//! C17 — within a quintant the curve position ↔ cell mapping is a bijection.
//! CENT (cell centroid relative to its anchor, in lattice units, per flip state and k) is
//! regenerated from /repo's real tiling code on every run by `verif_native c17table`.
use a5::coordinate_systems::IJ;
use a5::core::hilbert::*;

include!(concat!(env!("VERIF_GEN_DIR"), "/c17_table.rs"));

pub fn orient(k: u8) -> Orientation {
    match k {
        0 => Orientation::UV,
        1 => Orientation::VU,
        2 => Orientation::UW,
        3 => Orientation::WU,
        4 => Orientation::VW,
        _ => Orientation::WV,
    }
}

fn any_orientation() -> Orientation {
    let k: u8 = kani::any();
    kani::assume(k < 6);
    orient(k)
}

/// ∀ s < 4^n, ∀ δ ∈ [−2^-16, 2^-16]²: centre(s) = anchor.offset + CENT + δ lies inside the quintant
/// triangle and ij_to_s(centre) = s (left inverse ⇒ positions ↦ cells injective, none reachable twice).
fn body_o(n: usize, o: Orientation) {
    // warm the lazy_static pattern tables concretely
    let _ = ij_to_s(IJ::new(0.25, 0.25), 1, Orientation::UV);
    let _ = ij_to_s(IJ::new(0.25, 0.25), 1, Orientation::UW);
    let s: u64 = kani::any();
    kani::assume(s < (1u64 << (2 * n)));
    let a = s_to_anchor(s, n, o);
    assert!(a.k < 4);
    assert!((a.flips[0] == NO || a.flips[0] == YES) && (a.flips[1] == NO || a.flips[1] == YES));
    let f0 = if a.flips[0] == NO { 0 } else { 1 };
    let f1 = if a.flips[1] == NO { 0 } else { 1 };
    let c = CENT[f0][f1][a.k as usize];
    let dx: f64 = kani::any();
    let dy: f64 = kani::any();
    let eps = 1.0 / 65536.0;
    kani::assume(dx >= -eps && dx <= eps && dy >= -eps && dy <= eps);
    let px = a.offset.x() + c.0 + dx;
    let py = a.offset.y() + c.1 + dy;
    let m = (1u64 << n) as f64;
    assert!(px > 0.0 && py > 0.0 && px + py < m);
    let s2 = ij_to_s(IJ::new(px, py), n, o);
    assert!(s2 == s);
    kani::cover!(s == (1u64 << (2 * n)) - 1);
    kani::cover!(s == 0);
    core::mem::forget(a);
}

fn body(n: usize) {
    body_o(n, any_orientation());
}

macro_rules! c17_all {
    ($name:ident, $n:expr) => {
        #[kani::proof]
        #[kani::unwind(12)]
        pub fn $name() {
            body($n);
        }
    };
}
c17_all!(c17_n1, 1);
c17_all!(c17_n2, 2);
c17_all!(c17_n3, 3);
c17_all!(c17_n4, 4);
c17_all!(c17_n5, 5);
c17_all!(c17_n6, 6);

macro_rules! c17_one {
    ($name:ident, $n:expr, $o:expr) => {
        #[kani::proof]
        #[kani::unwind(14)]
        pub fn $name() {
            body_o($n, $o);
        }
    };
}
c17_one!(c17_n7_uv, 7, Orientation::UV);
c17_one!(c17_n7_vu, 7, Orientation::VU);
c17_one!(c17_n7_uw, 7, Orientation::UW);
c17_one!(c17_n7_wu, 7, Orientation::WU);
c17_one!(c17_n7_vw, 7, Orientation::VW);
c17_one!(c17_n7_wv, 7, Orientation::WV);
c17_one!(c17_n8_uv, 8, Orientation::UV);
c17_one!(c17_n8_vu, 8, Orientation::VU);
c17_one!(c17_n8_uw, 8, Orientation::UW);
c17_one!(c17_n8_wu, 8, Orientation::WU);
c17_one!(c17_n8_vw, 8, Orientation::VW);
c17_one!(c17_n8_wv, 8, Orientation::WV);
c17_one!(c17_n9_uv, 9, Orientation::UV);
c17_one!(c17_n9_vu, 9, Orientation::VU);
c17_one!(c17_n9_uw, 9, Orientation::UW);
c17_one!(c17_n9_wu, 9, Orientation::WU);
c17_one!(c17_n9_vw, 9, Orientation::VW);
c17_one!(c17_n9_wv, 9, Orientation::WV);
c17_one!(c17_n10_uv, 10, Orientation::UV);
c17_one!(c17_n10_vu, 10, Orientation::VU);
c17_one!(c17_n10_uw, 10, Orientation::UW);
c17_one!(c17_n10_wu, 10, Orientation::WU);
c17_one!(c17_n10_vw, 10, Orientation::VW);
c17_one!(c17_n10_wv, 10, Orientation::WV);

/// History independence: the same statement when s_to_anchor / ij_to_s have just been used for an
/// arbitrary *other* (position, orientation) of the same depth — a result must not depend on the
/// previous call (a memo keyed too coarsely would show here).
fn body_after_other(n: usize) {
    let _ = ij_to_s(IJ::new(0.25, 0.25), 1, Orientation::UV);
    let _ = ij_to_s(IJ::new(0.25, 0.25), 1, Orientation::UW);
    let s0: u64 = kani::any();
    kani::assume(s0 < (1u64 << (2 * n)));
    let o0 = any_orientation();
    let a0 = s_to_anchor(s0, n, o0);
    let _ = ij_to_s(IJ::new(a0.offset.x() + 0.3, a0.offset.y() + 0.3), n, o0);
    core::mem::forget(a0);
    body_o(n, any_orientation());
}

#[kani::proof]
#[kani::unwind(12)]
pub fn c17_seq_n2() {
    body_after_other(2);
}

#[kani::proof]
#[kani::unwind(12)]
pub fn c17_seq_n3() {
    body_after_other(3);
}

/// ∀ s < 4^n, all orientations: the anchor is a lattice point with integer coordinates inside the
/// (closed) quintant triangle — no overflow in `1 << n` / `(1 << 2n) − s − 1` for deep curves.
#[kani::proof]
#[kani::unwind(31)]
pub fn c17_anchor_depth28() {
    let n: usize = 28;
    let s: u64 = kani::any();
    kani::assume(s < (1u64 << (2 * n)));
    let o = any_orientation();
    let a = s_to_anchor(s, n, o);
    assert!(a.k < 4);
    let x = a.offset.x();
    let y = a.offset.y();
    assert!(x == x.floor() && y == y.floor());
    kani::cover!(s == (1u64 << (2 * n)) - 1);
    core::mem::forget(a);
}
