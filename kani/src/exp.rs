use crate::common::*;
use a5::core::serialization::*;
fn body_min() {
    warm();
    let c = any_valid_cell_res(1, 28);
    let id = ser(&c);
    let t = c.resolution + 1;
    let ch = match cell_to_children(id, Some(t)) { Ok(v) => v, Err(_) => { assert!(false); return; } };
    assert!(ch.len() == 4);
    let i: usize = kani::any();
    let j: usize = kani::any();
    kani::assume(i < 4 && j < 4 && i != j);
    assert!(ch[i] != ch[j]);
    assert!(get_resolution(ch[i]) == t);
    let p = match cell_to_parent(ch[i], Some(c.resolution)) { Ok(v) => v, Err(_) => { assert!(false); 0 } };
    assert!(p == id);
    core::mem::forget(ch);
}
#[kani::proof]
#[kani::unwind(32)]
#[kani::stub(alloc::fmt::format, fmt_stub)]
pub fn exp_d1_min() { body_min(); }
#[kani::proof]
#[kani::unwind(32)]
#[kani::stub(alloc::fmt::format, fmt_stub)]
#[kani::stub(a5::core::serialization::get_resolution, res_stub)]
pub fn exp_d1_min_stub() { body_min(); }
