//! Native replay entry point (cargo kani playback): runs one harness on the byte vectors of a
//! solver counterexample. Stubs are not applied in this mode; the driver builds it with the guard off.
include!(concat!(env!("VERIF_GEN_DIR"), "/replay_dispatch.rs"));

#[test]
fn replay_entry() {
    let h = std::env::var("VERIF_REPLAY_HARNESS").expect("VERIF_REPLAY_HARNESS");
    let f = std::env::var("VERIF_REPLAY_VALS").expect("VERIF_REPLAY_VALS");
    let text = std::fs::read_to_string(f).expect("vals file");
    let vals: Vec<Vec<u8>> = text
        .lines()
        .map(|l| l.split_whitespace().map(|b| b.parse::<u8>().expect("byte")).collect())
        .collect();
    assert!(dispatch(&h, vals), "unknown harness");
}
