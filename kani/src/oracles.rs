//! Equivalence harnesses: every bit-level oracle in common.rs is proved equal to the real code
//! over the full input width. A property harness that uses an oracle only counts if these pass
//! in the same run.
use crate::common::*;
use a5::core::serialization::*;

/// ∀ u64: loop-free res_stub = real get_resolution; result in −1..29.
#[kani::proof]
#[kani::unwind(33)]
pub fn oracle_res_equiv() {
    let x: u64 = kani::any();
    let r = get_resolution(x);
    assert!(res_stub(x) == r);
    assert!(r >= -1 && r <= 29);
    kani::cover!(r == 29);
    kani::cover!(r == -1 && x != 0);
}

/// ∀ u64: spec_valid(x) ⇔ deserialize(x) succeeds and serialize gives x back.
#[kani::proof]
#[kani::unwind(32)]
#[kani::stub(alloc::fmt::format, fmt_stub)]
pub fn oracle_valid_equiv() {
    warm();
    let x: u64 = kani::any();
    let real = canonical_real(x);
    assert!(real == spec_valid(x));
    kani::cover!(real);
    kani::cover!(!real);
}

/// ∀ pairs of canonical IDs: spec_covers(x, y) ⇔ res x ≤ res y ∧ cell_to_parent(y, res x) = x.
#[kani::proof]
#[kani::unwind(32)]
#[kani::stub(alloc::fmt::format, fmt_stub)]
pub fn oracle_covers_equiv() {
    warm();
    let x: u64 = kani::any();
    let y: u64 = kani::any();
    kani::assume(spec_valid(x) && spec_valid(y));
    let rx = get_resolution(x);
    let ry = get_resolution(y);
    let real = if rx > ry {
        false
    } else {
        match cell_to_parent(y, Some(rx)) {
            Ok(p) => p == x,
            Err(_) => false,
        }
    };
    assert!(real == spec_covers(x, y));
    kani::cover!(real && rx == 1 && ry == 2);
    kani::cover!(!real && rx == 1 && ry == 2);
    kani::cover!(real && rx == 0 && ry == 29);
}

/// ∀ valid cell(1..28) c, ∀ k<4: spec_child(id, k) = serialize(child k) — the bit-level child rule
/// agrees with the real codec (and hence, by c07_children_d1, with cell_to_children).
#[kani::proof]
#[kani::unwind(32)]
#[kani::stub(alloc::fmt::format, fmt_stub)]
pub fn oracle_child_equiv() {
    warm();
    let c = any_valid_cell_res(1, 28);
    let id = ser(&c);
    let k: u64 = kani::any();
    kani::assume(k < 4);
    let ch = a5::core::utils::A5Cell {
        origin_id: c.origin_id,
        segment: c.segment,
        s: (c.s << 2) + k,
        resolution: c.resolution + 1,
    };
    let want = ser(&ch);
    assert!(spec_child(id, k) == want);
    assert!(par(want, c.resolution) == id);
    kani::cover!(c.resolution == 1);
    kani::cover!(c.resolution == 28 && k == 3);
}

/// ∀ canonical x of resolution ≥ 0: cell_to_parent(x, None) = Ok(spec_parent1(x)).
#[kani::proof]
#[kani::unwind(32)]
#[kani::stub(alloc::fmt::format, fmt_stub)]
pub fn oracle_parent_equiv() {
    warm();
    let x: u64 = kani::any();
    kani::assume(spec_valid(x) && res_stub(x) >= 0);
    match cell_to_parent(x, None) {
        Ok(p) => assert!(p == spec_parent1(x)),
        Err(_) => assert!(false),
    }
    kani::cover!(res_stub(x) == 0);
    kani::cover!(res_stub(x) == 1);
    kani::cover!(res_stub(x) == 2);
    kani::cover!(res_stub(x) == 29);
}
