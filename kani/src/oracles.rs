//! Equivalence harnesses: every bit-level oracle in common.rs is proved equal to the real code
//! over the full input width. A property harness that uses an oracle only counts if these pass
//! in the same run.
use crate::common::*;
use a5::core::serialization::*;

/// ∀ u64: loop-free res_stub = real get_resolution; result in −1..29.
#[kani::proof]
#[kani::unwind(33)]
pub fn oracle_res_equiv() {
    let x: u64 = kani::any();
    let r = get_resolution(x);
    assert!(res_stub(x) == r);
    assert!(r >= -1 && r <= 29);
    kani::cover!(r == 29);
    kani::cover!(r == -1 && x != 0);
}

/// ∀ u64: spec_valid(x) ⇔ deserialize(x) succeeds and serialize gives x back.
#[kani::proof]
#[kani::unwind(32)]
#[kani::stub(alloc::fmt::format, fmt_stub)]
pub fn oracle_valid_equiv() {
    warm();
    let x: u64 = kani::any();
    let real = canonical_real(x);
    assert!(real == spec_valid(x));
    kani::cover!(real);
    kani::cover!(!real);
}

/// ∀ pairs of canonical IDs: spec_covers(x, y) ⇔ res x ≤ res y ∧ cell_to_parent(y, res x) = x.
#[kani::proof]
#[kani::unwind(32)]
#[kani::stub(alloc::fmt::format, fmt_stub)]
pub fn oracle_covers_equiv() {
    warm();
    let x: u64 = kani::any();
    let y: u64 = kani::any();
    kani::assume(spec_valid(x) && spec_valid(y));
    let rx = get_resolution(x);
    let ry = get_resolution(y);
    let real = if rx > ry {
        false
    } else {
        match cell_to_parent(y, Some(rx)) {
            Ok(p) => p == x,
            Err(_) => false,
        }
    };
    assert!(real == spec_covers(x, y));
    kani::cover!(real && rx == 1 && ry == 2);
    kani::cover!(!real && rx == 1 && ry == 2);
    kani::cover!(real && rx == 0 && ry == 29);
}
