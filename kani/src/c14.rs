//! C14 — total API: malformed IDs and out-of-range resolutions give Err, never a crash.
//! Kani checks every arithmetic/shift overflow, index, slice, unwrap/expect, explicit panic in the
//! overflow-checked (dev) semantics; unwinding assertions give termination within the bound.
use crate::common::*;
use a5::core::cell_info::get_num_children;
use a5::core::serialization::*;
use a5::core::utils::A5Cell;
use a5::LonLat;

fn any_opt_res() -> Option<i32> {
    let has: bool = kani::any();
    let r: i32 = kani::any();
    if has {
        Some(r)
    } else {
        None
    }
}

/// ∀ u64 × ∀ Option<i32>: cell_to_parent never panics; Ok(y) ⇒ y canonical, of the requested resolution.
#[kani::proof]
#[kani::unwind(32)]
#[kani::stub(alloc::fmt::format, fmt_stub)]
pub fn c14_parent() {
    warm();
    let x: u64 = kani::any();
    let t = any_opt_res();
    let rx = get_resolution(x);
    match cell_to_parent(x, t) {
        Ok(y) => {
            let want = match t {
                Some(r) => r,
                None => rx - 1,
            };
            assert!(get_resolution(y) == want);
            assert!(spec_valid(y));
            assert!(want >= -1 && want <= rx);
            kani::cover!(!spec_valid(x));
            kani::cover!(want == rx && rx == 29);
            kani::cover!(want == -1);
        }
        Err(_) => {
            // an Err is only honest for a non-cell, or a target outside −1..res(x)
            let want = match t {
                Some(r) => r,
                None => rx - 1,
            };
            assert!(deserialize(x).is_err() || want < -1 || want > rx);
            kani::cover!(true);
        }
    }
}

/// ∀ u64 × ∀ Option<i32> in the classes where the honest answer is Err or the cell itself
/// (target ≤ res(x) or target > 29): never panics; Ok ⇒ exactly one canonical ID of that resolution.
#[kani::proof]
#[kani::unwind(32)]
#[kani::stub(alloc::fmt::format, fmt_stub)]
pub fn c14_children_args() {
    warm();
    let x: u64 = kani::any();
    let t = any_opt_res();
    let rx = get_resolution(x);
    let want: i64 = match t {
        Some(r) => r as i64,
        None => rx as i64 + 1,
    };
    kani::assume(want <= rx as i64 || want > 29);
    match cell_to_children(x, t) {
        Ok(v) => {
            assert!(want == rx as i64);
            assert!(v.len() == 1);
            assert!(spec_valid(v[0]));
            assert!(get_resolution(v[0]) == rx);
            kani::cover!(!spec_valid(x));
            core::mem::forget(v);
        }
        Err(_) => {
            assert!(deserialize(x).is_err() || want < rx as i64 || want > 29);
            kani::cover!(want == 30 && rx == 29);
            kani::cover!(want > 60);
            kani::cover!(want < -1);
        }
    }
}

/// ∀ u64 x with res(x) ∈ 1..28 (canonical or not), target None / Some(res+1): Err (non-cell) or 4
/// canonical children of resolution res+1.
#[kani::proof]
#[kani::unwind(32)]
#[kani::stub(alloc::fmt::format, fmt_stub)]
pub fn c14_children_d1() {
    warm();
    let x: u64 = kani::any();
    let rx = get_resolution(x);
    kani::assume(rx >= 1 && rx <= 28);
    let has: bool = kani::any();
    let t = if has { Some(rx + 1) } else { None };
    match cell_to_children(x, t) {
        Ok(v) => {
            assert!(v.len() == 4);
            let i: usize = kani::any();
            kani::assume(i < 4);
            assert!(spec_valid(v[i]));
            assert!(get_resolution(v[i]) == rx + 1);
            kani::cover!(!spec_valid(x));
            kani::cover!(rx == 28);
            core::mem::forget(v);
        }
        Err(_) => {
            assert!(deserialize(x).is_err());
            kani::cover!(true);
        }
    }
}

/// ∀ aliases x of the world cell (no marker bit among the examined positions), target None / Some(0):
/// treated as the world cell: 12 canonical base cells.
#[kani::proof]
#[kani::unwind(32)]
#[kani::stub(alloc::fmt::format, fmt_stub)]
pub fn c14_children_world_alias() {
    warm();
    let x: u64 = kani::any();
    kani::assume(get_resolution(x) == -1);
    let has: bool = kani::any();
    let t = if has { Some(0) } else { None };
    match cell_to_children(x, t) {
        Ok(v) => {
            assert!(v.len() == 12);
            let i: usize = kani::any();
            kani::assume(i < 12);
            assert!(spec_valid(v[i]) && get_resolution(v[i]) == 0);
            kani::cover!(x != 0);
            core::mem::forget(v);
        }
        Err(_) => assert!(false, "world-cell alias must be treated as the world cell"),
    }
    // and its parent / same-level calls give the canonical world cell
    match cell_to_parent(x, Some(-1)) {
        Ok(y) => assert!(y == WORLD_CELL),
        Err(_) => assert!(false),
    }
}

/// ∀ i32 (×2): get_num_cells, cell_area, get_num_children never panic; in-range values follow the hierarchy.
#[kani::proof]
#[kani::unwind(34)]
pub fn c14_counts() {
    let r: i32 = kani::any();
    let n = a5::get_num_cells(r);
    if r >= 1 && r <= 27 {
        assert!(n == 60u64 << (2 * (r as u32 - 1)));
    }
    if r < 0 {
        assert!(n == 0);
    }
    let a = a5::cell_area(r);
    assert!(a == a); // not NaN
    let p: i32 = kani::any();
    let c: i32 = kani::any();
    let k = get_num_children(p, c);
    if c < p {
        assert!(k == 0);
    }
    kani::cover!(r == i32::MAX);
    kani::cover!(r == 31);
    kani::cover!(p == i32::MIN && c == i32::MAX);
}

/// uncompact on one arbitrary u64 and any i32 target where the honest answer is Err or the cell
/// itself: never panics; Err ⇔ target < res(x) or target outside −1..29.
#[kani::proof]
#[kani::unwind(32)]
#[kani::stub(alloc::fmt::format, fmt_stub)]
pub fn c14_uncompact_args() {
    warm();
    let x: u64 = kani::any();
    let t: i32 = kani::any();
    let rx = get_resolution(x);
    kani::assume(t <= rx || t > 29);
    match a5::uncompact(&[x], t) {
        Ok(v) => {
            assert!(t == rx);
            assert!(v.len() == 1 && get_resolution(v[0]) == t);
            // "returns a result that is itself valid": a malformed ID must not be passed through
            assert!(spec_valid(v[0]));
            kani::cover!(!spec_valid(x));
            core::mem::forget(v);
        }
        Err(_) => {
            // honest errors only: finer input, target out of range, or a non-cell
            assert!(t < rx || t > 29 || deserialize(x).is_err());
            kani::cover!(t == rx && deserialize(x).is_err());
            kani::cover!(t == i32::MIN);
            kani::cover!(t == 40 && rx == 2);
            kani::cover!(t == i32::MAX);
        }
    }
}

/// uncompact on one arbitrary u64 and any i32 target in the pure error classes (target finer
/// than nothing: below the cell's resolution, or outside −1..29): Err, never a panic.
#[kani::proof]
#[kani::unwind(32)]
#[kani::stub(alloc::fmt::format, fmt_stub)]
pub fn c14_uncompact_range() {
    warm();
    let x: u64 = kani::any();
    let t: i32 = kani::any();
    let rx = get_resolution(x);
    kani::assume(t < rx || t > 29);
    match a5::uncompact(&[x], t) {
        Ok(v) => {
            assert!(false, "uncompact to a coarser or out-of-range target must fail");
            core::mem::forget(v);
        }
        Err(_) => {
            kani::cover!(t == i32::MIN);
            kani::cover!(t == 40 && rx == 2);
            kani::cover!(t == i32::MAX);
            kani::cover!(t == 30);
            kani::cover!(t == -2);
        }
    }
}

/// uncompact on one arbitrary u64 with res ∈ 1..28, target = res+1: Err (non-cell) or 4 canonical
/// cells of the target resolution.
#[kani::proof]
#[kani::unwind(32)]
#[kani::stub(alloc::fmt::format, fmt_stub)]
#[kani::stub(a5::core::serialization::get_resolution, res_stub)]
pub fn c14_uncompact_d1() {
    warm();
    let x: u64 = kani::any();
    let rx = res_stub(x);
    kani::assume(rx >= 1 && rx <= 28);
    match a5::uncompact(&[x], rx + 1) {
        Ok(v) => {
            assert!(v.len() == 4);
            let i: usize = kani::any();
            kani::assume(i < 4);
            assert!(spec_valid(v[i]) && res_stub(v[i]) == rx + 1);
            kani::cover!(!spec_valid(x));
            core::mem::forget(v);
        }
        Err(_) => {
            assert!(!spec_valid(x) && (x >> 58) >= 60);
            kani::cover!(true);
        }
    }
}

/// compact on N arbitrary u64 (not only valid cells), strictly increasing (WLOG given std's
/// sort/dedup): terminates within the pass bound, no overflow in `cell + j·stride`, no OOB.
fn compact_total<const N: usize>(lowres: bool) {
    compact_total_class::<N>(lowres, false)
}

fn compact_total_class<const N: usize>(lowres: bool, clean: bool) {
    compact_total_marker::<N>(lowres, if clean { 56 } else { 64 })
}

/// `marker` < 64: every input has its lowest set bit exactly at `marker` (clean low bits).
fn compact_total_marker<const N: usize>(lowres: bool, marker: u32) {
    warm();
    #[cfg(felixpalmer_a5_rs_verif)]
    unsafe {
        a5::verif_set::ASSUME_UNIQUE = true;
    }
    let input: [u64; N] = kani::any();
    let mut i = 0;
    while i < N {
        if lowres {
            kani::assume(res_stub(input[i]) <= 1);
        }
        if marker < 64 {
            // marker bit set, nothing below it: the ID is determined by its bits above the marker
            kani::assume(input[i] & ((1u64 << (marker + 1)) - 1) == (1u64 << marker));
        }
        if i > 0 {
            kani::assume(input[i - 1] < input[i]);
        }
        i += 1;
    }
    match a5::compact(&input) {
        Ok(v) => {
            assert!(v.len() <= N && v.len() >= 1);
            kani::cover!(v.len() < N);
            kani::cover!(v.len() == N);
            core::mem::forget(v);
        }
        Err(_) => {
            // only a non-cell can make compaction fail
            let mut bad = false;
            let mut k = 0;
            while k < N {
                if !spec_valid(input[k]) {
                    bad = true;
                }
                k += 1;
            }
            assert!(bad);
        }
    }
}

#[kani::proof]
#[kani::unwind(14)]
#[kani::stub(alloc::fmt::format, fmt_stub)]
#[kani::stub(core::slice::sort::unstable::sort, sort_inner_small)]
#[kani::stub(a5::core::serialization::get_resolution, res_stub)]
pub fn c14_compact_any4() {
    compact_total::<4>(false);
}

/// The r ≤ 1 class needs 5 inputs for the sibling scan to run (5 quintants): this is where
/// `cell + j·stride` can leave the 64-bit range (top-6 codes 60..63).
#[kani::proof]
#[kani::unwind(14)]
#[kani::stub(alloc::fmt::format, fmt_stub)]
#[kani::stub(core::slice::sort::unstable::sort, sort_inner_small)]
#[kani::stub(a5::core::serialization::get_resolution, res_stub)]
pub fn c14_compact_lowres5() {
    compact_total::<5>(true);
}

/// Five IDs with the marker at bit 56 and clean low bits, any top-6 code 0..63 (60..63 are not
/// cells): the quintant sibling scan runs and `cell + j·stride` must not leave the 64-bit range.
#[kani::proof]
#[kani::unwind(14)]
#[kani::stub(alloc::fmt::format, fmt_stub)]
#[kani::stub(core::slice::sort::unstable::sort, sort_inner_small)]
#[kani::stub(a5::core::serialization::get_resolution, res_stub)]
pub fn c14_compact_r1_clean5() {
    compact_total_class::<5>(false, true);
}

/// Four IDs with the marker at bit 55 (apparent resolution 2) and clean low bits, any top-6 code
/// 0..63: a complete sibling group of malformed IDs (codes 60..63) must give Err, not a panic.
#[kani::proof]
#[kani::unwind(14)]
#[kani::stub(alloc::fmt::format, fmt_stub)]
#[kani::stub(core::slice::sort::unstable::sort, sort_inner_small)]
#[kani::stub(a5::core::serialization::get_resolution, res_stub)]
pub fn c14_compact_r2_clean4() {
    compact_total_marker::<4>(false, 55);
}

// ---------------------------------------------------------------------------------------------
// lonlat_to_cell: argument handling with the float leaves cut out.

/// Stub for the private `lonlat_to_estimate`: any in-range estimate for the requested resolution.
pub fn estimate_stub(_ll: LonLat, resolution: i32) -> Result<A5Cell, String> {
    let origin_id: u8 = kani::any();
    let segment: usize = kani::any();
    let s: u64 = kani::any();
    kani::assume(origin_id < 12 && segment < 5);
    if resolution >= 2 && resolution <= 32 {
        let bits = 2 * (resolution - 1) as u32;
        if bits < 64 {
            kani::assume(s < (1u64 << bits));
        }
    } else {
        kani::assume(s == 0);
    }
    Ok(A5Cell {
        origin_id,
        segment,
        s,
        resolution,
    })
}

pub fn contains_hit_stub(_c: &A5Cell, _p: LonLat) -> Result<f64, String> {
    Ok(1.0)
}

pub fn contains_miss_stub(_c: &A5Cell, _p: LonLat) -> Result<f64, String> {
    Ok(-1.0)
}

fn lookup_body(r: i32) {
    warm();
    let lon: f64 = kani::any();
    let lat: f64 = kani::any();
    kani::assume(lon.is_finite() && lat.is_finite());
    let in_range = r >= -1 && r <= 29;
    match a5::lonlat_to_cell(LonLat::new(lon, lat), r) {
        Ok(id) => {
            assert!(in_range);
            assert!(get_resolution(id) == r);
            assert!(spec_valid(id));
        }
        Err(_) => {
            assert!(!in_range);
        }
    }
    // reachability witness for the end of the call (either branch)
    kani::cover!(in_range);
    kani::cover!(!in_range);
}

fn lookup_body_concrete(r: i32) {
    warm();
    let lon: f64 = kani::any();
    let lat: f64 = kani::any();
    kani::assume(lon.is_finite() && lat.is_finite());
    let in_range = r >= -1 && r <= 29;
    match a5::lonlat_to_cell(LonLat::new(lon, lat), r) {
        Ok(id) => {
            assert!(in_range);
            assert!(get_resolution(id) == r);
            assert!(spec_valid(id));
        }
        Err(_) => {
            assert!(!in_range);
        }
    }
    kani::cover!(true);
}

/// ∀ finite point, ∀ i32 resolution, first probe hits: Ok(id) ⇒ res(id) = r ∈ −1..29; else Err.
#[kani::proof]
#[kani::unwind(32)]
#[kani::stub(alloc::fmt::format, fmt_stub)]
#[kani::stub(a5::core::cell::lonlat_to_estimate, estimate_stub)]
#[kani::stub(a5::core::cell::a5cell_contains_point, contains_hit_stub)]
pub fn c14_lookup_hit() {
    let r: i32 = kani::any();
    lookup_body(r);
}

/// Low resolutions and the out-of-range neighbours, one concrete r per instance.
macro_rules! lookup_lowres {
    ($name:ident, $r:expr) => {
        #[kani::proof]
        #[kani::unwind(32)]
        #[kani::stub(alloc::fmt::format, fmt_stub)]
        #[kani::stub(a5::core::cell::lonlat_to_estimate, estimate_stub)]
        #[kani::stub(a5::core::cell::a5cell_contains_point, contains_hit_stub)]
        pub fn $name() {
            lookup_body_concrete($r);
        }
    };
}
lookup_lowres!(c14_lookup_r_min, i32::MIN);
lookup_lowres!(c14_lookup_r_m2, -2);
lookup_lowres!(c14_lookup_r_m1, -1);
lookup_lowres!(c14_lookup_r_0, 0);
lookup_lowres!(c14_lookup_r_1, 1);
lookup_lowres!(c14_lookup_r_30, 30);
lookup_lowres!(c14_lookup_r_max, i32::MAX);
