//! C20 — numeric ID order is compatible with the hierarchy from the quintant level down.
use crate::common::*;
use a5::core::serialization::*;

/// ∀ a<b valid, same r≥2, ∀ L∈1..r: parent(a,L) ≤ parent(b,L).
#[kani::proof]
#[kani::unwind(32)]
#[kani::stub(alloc::fmt::format, fmt_stub)]
pub fn c20_anc_monotone() {
    warm();
    let a = any_valid_cell_res(2, 29);
    let b = any_valid_cell_res(2, 29);
    kani::assume(b.resolution == a.resolution);
    let ia = ser(&a);
    let ib = ser(&b);
    kani::assume(ia < ib);
    let l: i32 = kani::any();
    kani::assume(l >= 1 && l <= a.resolution);
    assert!(par(ia, l) <= par(ib, l));
    kani::cover!(a.resolution == 29 && l == 1);
    kani::cover!(a.origin_id != b.origin_id);
    kani::cover!(par(ia, l) == par(ib, l));
}

/// ∀ a<b same r≥2, ∀ descendants da of a, db of b (any depth): da < db.
#[kani::proof]
#[kani::unwind(32)]
#[kani::stub(alloc::fmt::format, fmt_stub)]
pub fn c20_desc_order() {
    warm();
    let a = any_valid_cell_res(2, 29);
    let b = any_valid_cell_res(2, 29);
    kani::assume(a.resolution == b.resolution);
    let da = any_valid_cell_res(2, 29);
    let db = any_valid_cell_res(2, 29);
    kani::assume(da.resolution >= a.resolution && db.resolution >= a.resolution);
    let ia = ser(&a);
    let ib = ser(&b);
    let ida = ser(&da);
    let idb = ser(&db);
    kani::assume(ia < ib);
    kani::assume(par(ida, a.resolution) == ia && par(idb, a.resolution) == ib);
    assert!(ida < idb);
    kani::cover!(da.resolution == 29 && db.resolution == a.resolution);
    kani::cover!(da.resolution > a.resolution + 4);
}

/// ∀ valid c (r≥1), ∀ descendants d1,d2 of c, ∀ valid x (r≥1): d1 ≤ x ≤ d2 ⇒ x is in c's subtree.
#[kani::proof]
#[kani::unwind(32)]
#[kani::stub(alloc::fmt::format, fmt_stub)]
pub fn c20_interval() {
    warm();
    let c = any_valid_cell_res(1, 29);
    let d1 = any_valid_cell_res(1, 29);
    let d2 = any_valid_cell_res(1, 29);
    let x = any_valid_cell_res(1, 29);
    kani::assume(d1.resolution >= c.resolution && d2.resolution >= c.resolution);
    let ic = ser(&c);
    let i1 = ser(&d1);
    let i2 = ser(&d2);
    let ix = ser(&x);
    kani::assume(par(i1, c.resolution) == ic && par(i2, c.resolution) == ic);
    kani::assume(i1 <= ix && ix <= i2);
    assert!(x.resolution >= c.resolution);
    if x.resolution >= c.resolution {
        assert!(par(ix, c.resolution) == ic);
    }
    kani::cover!(c.resolution == 1 && x.resolution == 29);
    kani::cover!(i1 < ix && ix < i2 && x.resolution == c.resolution + 1);
}

/// ∀ valid a<x same r≥2: x−a ≥ get_stride(r); is_first_child(a) ⇔ s&3 = 0 (with and without hint);
/// the four children of one parent are exactly stride apart.
#[kani::proof]
#[kani::unwind(32)]
#[kani::stub(alloc::fmt::format, fmt_stub)]
pub fn c20_sibling_gap() {
    warm();
    let a = any_valid_cell_res(2, 29);
    let x = any_valid_cell_res(2, 29);
    kani::assume(a.resolution == x.resolution);
    let ia = ser(&a);
    let ix = ser(&x);
    kani::assume(ia < ix);
    let st = get_stride(a.resolution);
    assert!(ix - ia >= st);
    assert!(is_first_child(ia, None) == (a.s & 3 == 0));
    assert!(is_first_child(ia, Some(a.resolution)) == (a.s & 3 == 0));
    // siblings are adjacent among same-resolution IDs: same parent and next position ⇒ exactly one stride
    if a.origin_id == x.origin_id && a.segment == x.segment && x.s == a.s + 1 {
        assert!(ix - ia == st);
    }
    kani::cover!(ix - ia == st && a.resolution == 29);
    kani::cover!(a.s & 3 == 0 && a.resolution == 2);
}

/// Low-resolution sibling predicates used by compaction: is_first_child / get_stride at r = 0, 1.
#[kani::proof]
#[kani::unwind(32)]
#[kani::stub(alloc::fmt::format, fmt_stub)]
pub fn c20_lowres_siblings() {
    warm();
    let a = any_valid_cell_res(0, 1);
    let ia = ser(&a);
    let code = ia >> 58;
    if a.resolution == 0 {
        assert!(is_first_child(ia, None) == (a.origin_id == 0));
        assert!(code == a.origin_id as u64);
    } else {
        assert!(is_first_child(ia, None) == (code % 5 == 0));
        assert!(code / 5 == a.origin_id as u64);
        // quintant IDs of one face are numerically adjacent among resolution-1 IDs
        let b = any_valid_cell_res(1, 1);
        let ib = ser(&b);
        if b.origin_id == a.origin_id && ia < ib {
            assert!((ib - ia) % get_stride(1) == 0 && (ib - ia) / get_stride(1) <= 4);
        }
    }
    assert!(is_first_child(ia, Some(a.resolution)) == is_first_child(ia, None));
    assert!(get_stride(a.resolution) == 1u64 << 58);
    kani::cover!(a.resolution == 0 && a.origin_id == 0);
    kani::cover!(a.resolution == 1 && code % 5 == 0);
}

/// Witness that the r ≥ 1 restriction is needed: a base cell ID lies strictly between two quintant
/// IDs of another face. Guards against the harnesses silently strengthening the property.
#[kani::proof]
#[kani::unwind(32)]
#[kani::stub(alloc::fmt::format, fmt_stub)]
pub fn c20_base_exception() {
    warm();
    let base = any_valid_cell_res(0, 0);
    let q1 = any_valid_cell_res(1, 1);
    let q2 = any_valid_cell_res(1, 1);
    kani::assume(q1.origin_id == q2.origin_id && q1.origin_id != base.origin_id);
    let ib = ser(&base);
    let i1 = ser(&q1);
    let i2 = ser(&q2);
    kani::cover!(i1 < ib && ib < i2);
    assert!(ib != i1);
}
