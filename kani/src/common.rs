//! Shared harness helpers: symbolic valid cells, stubs, bit-level oracles.
//! Every oracle here that stands in for real code has an equivalence harness in `oracles.rs`
//! which the driver runs in the same invocation as the property harnesses that depend on it.
#![allow(dead_code)]

use a5::core::serialization::*;
use a5::core::utils::A5Cell;

/// Stub for `alloc::fmt::format`: error *messages* become empty, Ok/Err shape is untouched.
pub fn fmt_stub(_args: core::fmt::Arguments<'_>) -> String {
    String::new()
}

/// Warm the OnceLock concretely as the first statement of every harness (DESIGN §2.2 lesson 1).
pub fn warm() {
    let _ = a5::core::origin::get_origins();
}

/// Frozen first-quintant row by face id, generated once from the pinned release (v0.6.2).
pub const QF: [usize; 12] = [4, 2, 3, 0, 2, 4, 2, 2, 3, 0, 3, 0];

/// Symbolic *valid cell description* with resolution in lo..=hi (documented validity predicate).
pub fn any_valid_cell_res(lo: i32, hi: i32) -> A5Cell {
    let resolution: i32 = kani::any();
    kani::assume(resolution >= lo && resolution <= hi);
    let origin_id: u8 = kani::any();
    let segment: usize = kani::any();
    let s: u64 = kani::any();
    kani::assume(origin_id < 12);
    kani::assume(segment < 5);
    if resolution < 2 {
        kani::assume(s == 0);
        if resolution < 1 {
            kani::assume(segment == 0);
        }
        if resolution < 0 {
            kani::assume(origin_id == 0);
        }
    } else {
        let bits = 2 * (resolution - 1) as u32;
        kani::assume(s < (1u64 << bits));
    }
    A5Cell {
        origin_id,
        segment,
        s,
        resolution,
    }
}

pub fn same_cell(a: &A5Cell, b: &A5Cell) -> bool {
    a.origin_id == b.origin_id && a.segment == b.segment && a.s == b.s && a.resolution == b.resolution
}

/// serialize, asserting Ok (never `unwrap` a Result<_, String>: Debug formatting explodes).
pub fn ser(c: &A5Cell) -> u64 {
    match serialize(c) {
        Ok(v) => v,
        Err(_) => {
            assert!(false, "serialize of a valid cell returned Err");
            0
        }
    }
}

pub fn par(x: u64, r: i32) -> u64 {
    match cell_to_parent(x, Some(r)) {
        Ok(v) => v,
        Err(_) => {
            assert!(false, "cell_to_parent to a coarser-or-equal level returned Err");
            0
        }
    }
}

/// "y is canonical": decodes, and re-encodes to itself. Real code on both legs.
pub fn canonical_real(y: u64) -> bool {
    match deserialize(y) {
        Ok(c) => match serialize(&c) {
            Ok(z) => z == y,
            Err(_) => false,
        },
        Err(_) => false,
    }
}

// ---------------------------------------------------------------------------------------------
// Bit-level oracles (loop-free). Proved equal to the real code by oracles.rs.

/// Bits the real get_resolution loop examines: odd bits 1..55, then 56, then 57.
pub const M: u64 = 0x02AA_AAAA_AAAA_AAAA | (1u64 << 56);

/// Count trailing zeros of a non-zero word by binary search. Unlike the `trailing_zeros` intrinsic
/// this is constant-folded by CBMC's symbolic execution when the argument is concrete, which keeps
/// the resolution of a literal ID — and with it every loop bound derived from it — concrete.
pub fn ctz64(mut y: u64) -> u32 {
    let mut n = 0;
    if y & 0xFFFF_FFFF == 0 {
        n += 32;
        y >>= 32;
    }
    if y & 0xFFFF == 0 {
        n += 16;
        y >>= 16;
    }
    if y & 0xFF == 0 {
        n += 8;
        y >>= 8;
    }
    if y & 0xF == 0 {
        n += 4;
        y >>= 4;
    }
    if y & 0x3 == 0 {
        n += 2;
        y >>= 2;
    }
    if y & 0x1 == 0 {
        n += 1;
    }
    n
}

/// Loop-free get_resolution (equivalence: `oracle_res_equiv`, all 2^64 inputs).
pub fn res_stub(x: u64) -> i32 {
    let y = x & M;
    if y == 0 {
        return -1;
    }
    let p = ctz64(y);
    if p == 57 {
        0
    } else if p == 56 {
        1
    } else {
        ((59 - p) / 2) as i32
    }
}

/// Canonical-valid predicate on raw IDs (equivalence: `oracle_valid_equiv`).
pub fn spec_valid(x: u64) -> bool {
    let y = x & M;
    if y == 0 {
        return x == 0;
    }
    let p = ctz64(y);
    if x & ((1u64 << p) - 1) != 0 {
        return false;
    }
    let top6 = x >> 58;
    if p == 57 {
        top6 < 12
    } else if p == 56 {
        top6 < 60 && (x >> 57) & 1 == 0
    } else {
        top6 < 60
    }
}

/// "x is an ancestor-or-self of y" on canonical IDs (equivalence: `oracle_covers_equiv`).
pub fn spec_covers(x: u64, y: u64) -> bool {
    let rx = res_stub(x);
    let ry = res_stub(y);
    if rx > ry {
        return false;
    }
    if rx == -1 {
        return true;
    }
    if rx == 0 {
        let fy = if ry == 0 { y >> 58 } else { (y >> 58) / 5 };
        return fy == (x >> 58);
    }
    let p = ctz64(x & M);
    let sh = if p == 56 { 58 } else { p + 1 };
    (x >> sh) == (y >> sh)
}

/// k-th child (k<4) of a canonical cell of resolution ≥ 1 (equivalence: `oracle_child_equiv`).
pub fn spec_child(x: u64, k: u64) -> u64 {
    let p = ctz64(x & M); // marker bit position (56 at r=1, 57−2(r−1) at r≥2)
    if p == 56 {
        (x & !(1u64 << 56)) | (k << 56) | (1u64 << 55)
    } else {
        (x & !(1u64 << p)) | (k << (p - 1)) | (1u64 << (p - 2))
    }
}

/// Documented layout of a valid cell description (the formula `c05_layout` proves equal to the real
/// `serialize` on every valid cell, pinned by the frozen first-quintant table).
pub fn layout_bits(c: &A5Cell) -> u64 {
    let r = c.resolution;
    if r == -1 {
        0
    } else if r == 0 {
        ((c.origin_id as u64) << 58) | (1u64 << 57)
    } else {
        let code = 5 * (c.origin_id as u64) + ((c.segment + 5 - QF[c.origin_id as usize]) % 5) as u64;
        if r == 1 {
            (code << 58) | (1u64 << 56)
        } else {
            let l = (r - 1) as u32;
            (code << 58) | (c.s << (58 - 2 * l)) | (1u64 << (57 - 2 * l))
        }
    }
}

/// Contract model of `serialize` on valid cell descriptions (proved by `c05_layout`); it
/// `assert!(false)`s when used outside the contract.
pub fn serialize_model(c: &A5Cell) -> Result<u64, String> {
    let r = c.resolution;
    let ok = r >= -1
        && r <= 29
        && c.origin_id < 12
        && c.segment < 5
        && (if r >= 2 { c.s < (1u64 << (2 * (r - 1) as u32)) } else { c.s == 0 })
        && (r >= 1 || c.segment == 0)
        && (r >= 0 || c.origin_id == 0);
    if ok {
        Ok(layout_bits(c))
    } else {
        assert!(false, "serialize_model used outside its contract");
        Err(String::new())
    }
}

/// Parent one level up of a canonical cell of resolution ≥ 0 (equivalence: `oracle_parent_equiv`).
pub fn spec_parent1(x: u64) -> u64 {
    let p = ctz64(x & M);
    if p == 57 {
        0
    } else if p == 56 {
        ((x >> 58) / 5) << 58 | (1u64 << 57)
    } else if p == 55 {
        (x >> 58) << 58 | (1u64 << 56)
    } else {
        (x & !(7u64 << p)) | (1u64 << (p + 2))
    }
}

/// Contract model of `cell_to_parent(x, None)` on canonical cells of resolution ≥ 0 — the only way
/// `compact` calls it on valid input. Proved equal to the real function by `oracle_parent_equiv`.
pub fn parent_model(index: u64, parent_resolution: Option<i32>) -> Result<u64, String> {
    match parent_resolution {
        None if spec_valid(index) && res_stub(index) >= 0 => Ok(spec_parent1(index)),
        _ => {
            assert!(false, "parent_model used outside its contract");
            Err(String::new())
        }
    }
}

/// Stubs for `<[u64]>::sort_unstable_by_key` (generic, as Kani requires).
pub fn sort_by_key_noop<T, K: Ord, F: FnMut(&T) -> K>(_v: &mut [T], _f: F) {}

pub fn sort_by_key_reverse<T, K: Ord, F: FnMut(&T) -> K>(v: &mut [T], _f: F) {
    v.reverse();
}

/// Bounded insertion sort by key (≤ 6 elements) with the contract of sort_unstable_by_key.
pub fn sort_by_key_small<T, K: Ord, F: FnMut(&T) -> K>(v: &mut [T], mut f: F) {
    const MAXN: usize = 6;
    let n = v.len();
    let mut i = 1;
    while i < MAXN {
        if i >= n {
            break;
        }
        let mut j = i;
        let mut k = 0;
        while k < MAXN {
            if !(j > 0 && f(&v[j - 1]) > f(&v[j])) {
                break;
            }
            v.swap(j - 1, j);
            j -= 1;
            k += 1;
        }
        i += 1;
    }
}

/// Sort stubs for `<[u64]>::sort_unstable` (generic, as Kani requires).
pub fn sort_noop<T: Ord>(_v: &mut [T]) {}

pub fn sort_reverse<T: Ord>(v: &mut [T]) {
    v.reverse();
}

/// Bounded insertion sort (≤ 4 elements) with the contract of sort_unstable.
pub fn sort_small<T: Ord>(v: &mut [T]) {
    const MAXN: usize = 6;
    let n = v.len();
    let mut i = 1;
    while i < MAXN {
        if i >= n {
            break;
        }
        let mut j = i;
        let mut k = 0;
        while k < MAXN {
            if !(j > 0 && v[j - 1] > v[j]) {
                break;
            }
            v.swap(j - 1, j);
            j -= 1;
            k += 1;
        }
        i += 1;
    }
}

/// Stub for std's internal `core::slice::sort::unstable::sort` (the common back end of
/// sort_unstable, sort_unstable_by and sort_unstable_by_key): bounded insertion sort (≤ 8 elements, asserted).
pub fn sort_inner_small<T, F>(v: &mut [T], is_less: &mut F)
where
    F: FnMut(&T, &T) -> bool,
{
    const MAXN: usize = 8;
    let n = v.len();
    assert!(n <= MAXN, "sort stub bound exceeded");
    let mut i = 1;
    while i < MAXN {
        if i >= n {
            break;
        }
        let mut j = i;
        let mut k = 0;
        while k < MAXN {
            if !(j > 0 && is_less(&v[j], &v[j - 1])) {
                break;
            }
            v.swap(j - 1, j);
            j -= 1;
            k += 1;
        }
        i += 1;
    }
}

pub fn sort_inner_noop<T, F>(_v: &mut [T], _is_less: &mut F)
where
    F: FnMut(&T, &T) -> bool,
{
}

/// Same, bounded to 4 elements (asserted) — for the harnesses whose vector length is symbolic.
pub fn sort_inner_small4<T, F>(v: &mut [T], is_less: &mut F)
where
    F: FnMut(&T, &T) -> bool,
{
    const MAXN: usize = 4;
    let n = v.len();
    assert!(n <= MAXN, "sort stub bound exceeded");
    let mut i = 1;
    while i < MAXN {
        if i >= n {
            break;
        }
        let mut j = i;
        let mut k = 0;
        while k < MAXN {
            if !(j > 0 && is_less(&v[j], &v[j - 1])) {
                break;
            }
            v.swap(j - 1, j);
            j -= 1;
            k += 1;
        }
        i += 1;
    }
}
