//! C05 — cell-ID codec (bits and hex) is a bijection with the documented layout.
use crate::common::*;
use a5::core::serialization::*;

/// ∀ valid cell(−1..29): serialize Ok, get_resolution(id) = r, deserialize(id) = the cell.
#[kani::proof]
#[kani::unwind(32)]
#[kani::stub(alloc::fmt::format, fmt_stub)]
pub fn c05_roundtrip() {
    warm();
    let c = any_valid_cell_res(-1, 29);
    let id = ser(&c);
    assert!(get_resolution(id) == c.resolution);
    match deserialize(id) {
        Ok(d) => assert!(same_cell(&c, &d)),
        Err(_) => assert!(false, "valid id failed to decode"),
    }
    kani::cover!(c.resolution == 29 && c.s == (1u64 << 56) - 1);
    kani::cover!(c.resolution == -1);
    kani::cover!(c.resolution == 1 && c.origin_id == 11 && c.segment == 4);
}

/// Documented layout, pinned by the frozen first-quintant table (independent of the code).
#[kani::proof]
#[kani::unwind(32)]
#[kani::stub(alloc::fmt::format, fmt_stub)]
pub fn c05_layout() {
    warm();
    let c = any_valid_cell_res(-1, 29);
    let id = ser(&c);
    let r = c.resolution;
    let spec: u64 = layout_bits(&c);
    assert!(id == spec);
    // "then zeros": nothing below the marker
    assert!(spec_valid(id));
    kani::cover!(r == 29);
    kani::cover!(r == 0 && c.origin_id == 11);
    kani::cover!(r == 2 && c.s == 3);
}

/// ∀ u64 x: deserialize(x) is Err or a valid cell c whose re-encoding decodes to c again
/// (aliases collapse onto one canonical ID).
#[kani::proof]
#[kani::unwind(32)]
#[kani::stub(alloc::fmt::format, fmt_stub)]
pub fn c05_decode_total() {
    warm();
    let x: u64 = kani::any();
    match deserialize(x) {
        Ok(c) => {
            assert!(c.origin_id < 12 && c.segment < 5 && c.resolution >= -1 && c.resolution <= 29);
            if c.resolution >= 2 {
                assert!(c.s < (1u64 << (2 * (c.resolution - 1) as u32)));
            } else {
                assert!(c.s == 0);
            }
            match serialize(&c) {
                Ok(z) => {
                    assert!(spec_valid(z));
                    match deserialize(z) {
                        Ok(d) => assert!(same_cell(&c, &d)),
                        Err(_) => assert!(false),
                    }
                    // a canonical ID is its own re-encoding
                    if spec_valid(x) {
                        assert!(z == x);
                    }
                }
                Err(_) => assert!(false, "decoded cell does not re-encode"),
            }
            kani::cover!(!spec_valid(x));
            kani::cover!(spec_valid(x) && c.resolution == 29);
        }
        Err(_) => {
            assert!(!spec_valid(x));
            kani::cover!(true);
        }
    }
}

/// ∀ two different valid cells: different IDs.
#[kani::proof]
#[kani::unwind(32)]
#[kani::stub(alloc::fmt::format, fmt_stub)]
pub fn c05_injective() {
    warm();
    let a = any_valid_cell_res(-1, 29);
    let b = any_valid_cell_res(-1, 29);
    kani::assume(!same_cell(&a, &b));
    assert!(ser(&a) != ser(&b));
    kani::cover!(a.resolution == 0 && b.resolution == 1);
    kani::cover!(a.resolution == 29 && b.resolution == 29);
}

/// ∀ u64 v: u64_to_hex(v) is 1..16 lower-case hex digits, no leading zero, re-reads to v.
/// The real core::fmt LowerHex path is executed, not stubbed.
#[kani::proof]
#[kani::unwind(18)]
pub fn c05_hex_fmt() {
    let v: u64 = kani::any();
    let s = a5::u64_to_hex(v);
    let b = s.as_bytes();
    let n = b.len();
    assert!(n >= 1 && n <= 16);
    let mut acc: u64 = 0;
    let mut i = 0;
    while i < n {
        let c = b[i];
        let d = if c >= b'0' && c <= b'9' {
            c - b'0'
        } else if c >= b'a' && c <= b'f' {
            c - b'a' + 10
        } else {
            assert!(false, "non lower-case-hex byte in u64_to_hex output");
            0
        };
        if i == 0 && n > 1 {
            assert!(d != 0, "leading zero");
        }
        acc = (acc << 4) | d as u64;
        i += 1;
    }
    assert!(acc == v);
    kani::cover!(n == 16);
    kani::cover!(n == 1 && v == 0);
    core::mem::forget(s);
}

fn hex_oracle(b: &[u8]) -> Option<u64> {
    let mut i = 0;
    if b.is_empty() {
        return None;
    }
    if b[0] == b'+' {
        i = 1;
        if b.len() == 1 {
            return None;
        }
    }
    let mut acc: u128 = 0;
    while i < b.len() {
        let c = b[i];
        let d = if c >= b'0' && c <= b'9' {
            c - b'0'
        } else if c >= b'a' && c <= b'f' {
            c - b'a' + 10
        } else if c >= b'A' && c <= b'F' {
            c - b'A' + 10
        } else {
            return None;
        };
        acc = (acc << 4) | d as u128;
        if acc > u64::MAX as u128 {
            return None;
        }
        i += 1;
    }
    Some(acc as u64)
}

fn parse_body<const N: usize>() {
    let bytes: [u8; N] = kani::any();
    let len: usize = kani::any();
    kani::assume(len <= N);
    let mut i = 0;
    while i < N {
        kani::assume(bytes[i] < 128);
        i += 1;
    }
    let s = unsafe { core::str::from_utf8_unchecked(&bytes[..len]) };
    let r = a5::hex_to_u64(s);
    let o = hex_oracle(&bytes[..len]);
    match (r, o) {
        (Ok(a), Some(b)) => {
            assert!(a == b);
            kani::cover!(len == 16 && a == u64::MAX);
            kani::cover!(len == N);
        }
        (Err(_), None) => {
            kani::cover!(len == 0);
            kani::cover!(len == 17);
        }
        _ => assert!(false, "hex_to_u64 disagrees with the reference parser"),
    }
}

/// ∀ ASCII strings of length ≤ 18: hex_to_u64 = reference parser; never panics.
#[kani::proof]
#[kani::unwind(20)]
#[kani::stub(alloc::fmt::format, fmt_stub)]
pub fn c05_hex_parse18() {
    parse_body::<18>();
}

/// ∀ strings of ≤ 2 arbitrary Unicode scalar values (1–4 bytes each) followed by ≤ 2 ASCII bytes:
/// any non-ASCII character ⇒ Err, never a panic or a truncated value.
#[kani::proof]
#[kani::unwind(12)]
#[kani::stub(alloc::fmt::format, fmt_stub)]
pub fn c05_hex_parse_utf8() {
    let c1: char = kani::any();
    let c2: char = kani::any();
    let mut buf = [0u8; 8];
    let n1 = c1.encode_utf8(&mut buf[..4]).len();
    let n2 = c2.encode_utf8(&mut buf[n1..n1 + 4]).len();
    let len = n1 + n2;
    let s = match core::str::from_utf8(&buf[..len]) {
        Ok(s) => s,
        Err(_) => {
            assert!(false);
            return;
        }
    };
    let r = a5::hex_to_u64(s);
    if !c1.is_ascii() || !c2.is_ascii() {
        assert!(r.is_err());
        kani::cover!(n1 == 4);
        kani::cover!(n1 == 1 && n2 == 3);
    } else {
        let o = hex_oracle(&buf[..len]);
        match (r, o) {
            (Ok(a), Some(b)) => assert!(a == b),
            (Err(_), None) => {}
            _ => assert!(false),
        }
    }
}
