//! C07 — parent/children form one consistent tree over all resolutions.
use crate::common::*;
use a5::core::cell_info::get_num_children;
use a5::core::serialization::*;
use a5::core::utils::A5Cell;

fn kids(id: u64, t: i32) -> Option<Vec<u64>> {
    match cell_to_children(id, Some(t)) {
        Ok(v) => Some(v),
        Err(_) => {
            assert!(false, "cell_to_children to a finer level in range returned Err");
            None
        }
    }
}

/// ∀ valid cell(0..29) c, ∀ −1 ≤ b ≤ a ≤ r: parent(parent(c,a),b) = parent(c,b); res(parent(c,a)) = a.
#[kani::proof]
#[kani::unwind(32)]
#[kani::stub(alloc::fmt::format, fmt_stub)]
pub fn c07_compose() {
    warm();
    let c = any_valid_cell_res(0, 29);
    let id = ser(&c);
    let a: i32 = kani::any();
    let b: i32 = kani::any();
    kani::assume(-1 <= b && b <= a && a <= c.resolution);
    let pa = par(id, a);
    let pb = par(pa, b);
    let pd = par(id, b);
    assert!(pb == pd);
    assert!(get_resolution(pa) == a);
    assert!(spec_valid(pa));
    // default argument = one level up
    match cell_to_parent(id, None) {
        Ok(p) => assert!(p == par(id, c.resolution - 1)),
        Err(_) => assert!(false),
    }
    kani::cover!(c.resolution == 29 && a == 2 && b == 1);
    kani::cover!(a == 0 && b == -1);
    kani::cover!(c.resolution == 1 && a == 1 && b == 0);
}

fn children_body(d: i32, n: usize) {
    warm();
    let c = any_valid_cell_res(1, 29 - d);
    let id = ser(&c);
    let t = c.resolution + d;
    let ch = match kids(id, t) {
        Some(v) => v,
        None => return,
    };
    assert!(ch.len() == n);
    assert!(get_num_children(c.resolution, t) == n);
    let i: usize = kani::any();
    let j: usize = kani::any();
    kani::assume(i < n && j < n && i != j);
    assert!(ch[i] != ch[j]);
    assert!(get_resolution(ch[i]) == t);
    assert!(par(ch[i], c.resolution) == id);
    assert!(spec_valid(ch[i]));
    // numeric order follows the child index (children are emitted in curve order)
    if i < j {
        assert!(ch[i] < ch[j]);
    }
    // and each child is the one the bit-level child rule names
    if d == 1 {
        assert!(ch[i] == spec_child(id, i as u64));
    }
    kani::cover!(c.resolution == 1);
    kani::cover!(c.resolution == 29 - d && i == n - 1);
    core::mem::forget(ch);
}

/// ∀ valid cell(1..28): children one level down: 4, pairwise distinct, right resolution, parent = c, canonical.
#[kani::proof]
#[kani::unwind(32)]
#[kani::stub(alloc::fmt::format, fmt_stub)]
#[kani::stub(a5::core::serialization::get_resolution, res_stub)]
pub fn c07_children_d1() {
    children_body(1, 4);
}

/// Same, two levels down (16 children).
#[kani::proof]
#[kani::unwind(32)]
#[kani::stub(alloc::fmt::format, fmt_stub)]
#[kani::stub(a5::core::serialization::get_resolution, res_stub)]
pub fn c07_children_d2() {
    children_body(2, 16);
}

/// Two levels down in ONE call from a quintant cell (resolution 1 → 3: the jump from the non-Hilbert
/// levels straight into the curve), one symbolic index: children(c, 3)[i] =
/// spec_child(spec_child(c, i>>2), i&3) and the list has 16 entries. (spec_child is proved equal to the
/// real one-level expansion by c07_children_d1.) The same statement for parents of resolution 2..27
/// (symbolic level) ran out of memory at 21 GB RSS / 40 GB address space and is not registered.
#[kani::proof]
#[kani::unwind(32)]
#[kani::stub(alloc::fmt::format, fmt_stub)]
#[kani::stub(a5::core::serialization::get_resolution, res_stub)]
pub fn c07_children_d2_r1() {
    d2_lite_body(1, 1);
}

/// Same at the deepest pair of levels (resolution 27 → 29, where the marker reaches bit 1).
/// NOT registered: its only run was killed for memory on a box shared with seven other checks
/// (13.8 GB RSS, 541 s) and there was no time to repeat it alone; kept for a later session.
#[kani::proof]
#[kani::unwind(32)]
#[kani::stub(alloc::fmt::format, fmt_stub)]
#[kani::stub(a5::core::serialization::get_resolution, res_stub)]
pub fn c07_children_d2_r27() {
    d2_lite_body(27, 27);
}

/// Same at the first Hilbert level (resolution 2 → 4). NOT registered: never run to completion.
#[kani::proof]
#[kani::unwind(32)]
#[kani::stub(alloc::fmt::format, fmt_stub)]
#[kani::stub(a5::core::serialization::get_resolution, res_stub)]
pub fn c07_children_d2_r2() {
    d2_lite_body(2, 2);
}

fn d2_lite_body(lo: i32, hi: i32) {
    warm();
    let c = any_valid_cell_res(lo, hi);
    let id = ser(&c);
    let ch = match kids(id, c.resolution + 2) {
        Some(v) => v,
        None => return,
    };
    assert!(ch.len() == 16);
    let i: usize = kani::any();
    kani::assume(i < 16);
    kani::cover!(c.resolution == hi && i == 15);
    kani::cover!(c.resolution == lo && i == 6);
    assert!(ch[i] == spec_child(spec_child(id, (i >> 2) as u64), (i & 3) as u64));
    core::mem::forget(ch);
}

/// World cell: 12 base cells at resolution 0, 60 quintants at resolution 1.
#[kani::proof]
#[kani::unwind(62)]
#[kani::stub(alloc::fmt::format, fmt_stub)]
#[kani::stub(a5::core::serialization::get_resolution, res_stub)]
pub fn c07_world() {
    warm();
    let ch0 = match kids(WORLD_CELL, 0) {
        Some(v) => v,
        None => return,
    };
    assert!(ch0.len() == 12);
    let i: usize = kani::any();
    let j: usize = kani::any();
    kani::assume(i < 12 && j < 12 && i != j);
    assert!(ch0[i] != ch0[j]);
    assert!(get_resolution(ch0[i]) == 0);
    assert!(par(ch0[i], -1) == WORLD_CELL);
    assert!(spec_valid(ch0[i]));
    match cell_to_children(WORLD_CELL, None) {
        Ok(v) => {
            assert!(v.len() == 12 && v[i] == ch0[i]);
            core::mem::forget(v);
        }
        Err(_) => assert!(false),
    }
    match get_res0_cells() {
        Ok(v) => {
            assert!(v.len() == 12 && v[i] == ch0[i]);
            core::mem::forget(v);
        }
        Err(_) => assert!(false),
    }
    let ch1 = match kids(WORLD_CELL, 1) {
        Some(v) => v,
        None => return,
    };
    assert!(ch1.len() == 60);
    let a: usize = kani::any();
    let b: usize = kani::any();
    kani::assume(a < 60 && b < 60 && a != b);
    assert!(ch1[a] != ch1[b]);
    assert!(get_resolution(ch1[a]) == 1);
    assert!(spec_valid(ch1[a]));
    // listed under the right base cell: face-major order
    assert!(par(ch1[a], 0) == ch0[a / 5]);
    assert!(get_num_children(-1, 0) == 12 && get_num_children(-1, 1) == 60);
    kani::cover!(a == 59);
    core::mem::forget(ch0);
    core::mem::forget(ch1);
}

/// ∀ face: the 5 children of the base cell at resolution 1: distinct, resolution 1, ancestor = the
/// base cell, canonical, each quintant of the face listed exactly once; default argument = one level down.
#[kani::proof]
#[kani::unwind(32)]
#[kani::stub(alloc::fmt::format, fmt_stub)]
#[kani::stub(a5::core::serialization::get_resolution, res_stub)]
pub fn c07_base_q() {
    warm();
    let c = any_valid_cell_res(0, 0);
    let id = ser(&c);
    let ch1 = match kids(id, 1) {
        Some(v) => v,
        None => return,
    };
    assert!(ch1.len() == 5);
    assert!(get_num_children(0, 1) == 5);
    let i: usize = kani::any();
    let j: usize = kani::any();
    kani::assume(i < 5 && j < 5 && i != j);
    assert!(ch1[i] != ch1[j]);
    assert!(res_stub(ch1[i]) == 1);
    assert!(spec_covers(id, ch1[i]));
    assert!(spec_valid(ch1[i]));
    // every quintant of this face occurs in the list (5 distinct members of a 5-element set)
    assert!((ch1[i] >> 58) / 5 == c.origin_id as u64);
    kani::cover!(c.origin_id == 11 && i == 4);
    core::mem::forget(ch1);
}

/// ∀ face: the 20 children of the base cell at resolution 2: distinct, resolution 2, ancestor = the
/// base cell, canonical, in quintant-major order (children of children = children at the deeper level).
#[kani::proof]
#[kani::unwind(32)]
#[kani::stub(alloc::fmt::format, fmt_stub)]
#[kani::stub(a5::core::serialization::get_resolution, res_stub)]
pub fn c07_base_g() {
    warm();
    let c = any_valid_cell_res(0, 0);
    let id = ser(&c);
    let ch2 = match kids(id, 2) {
        Some(v) => v,
        None => return,
    };
    assert!(ch2.len() == 20);
    assert!(get_num_children(0, 2) == 20);
    let a: usize = kani::any();
    let b: usize = kani::any();
    kani::assume(a < 20 && b < 20 && a != b);
    assert!(ch2[a] != ch2[b]);
    assert!(res_stub(ch2[a]) == 2);
    assert!(spec_covers(id, ch2[a]));
    assert!(spec_valid(ch2[a]));
    // same quintant ⇔ same block of four
    let qa = ch2[a] >> 58;
    let qb = ch2[b] >> 58;
    assert!((qa == qb) == (a / 4 == b / 4));
    kani::cover!(c.origin_id == 11 && a == 19);
    core::mem::forget(ch2);
}

/// ∀ valid cell y at r ≥ 3: y = children(parent(y))[s & 3] — every cell is listed exactly under its parent.
#[kani::proof]
#[kani::unwind(32)]
#[kani::stub(alloc::fmt::format, fmt_stub)]
#[kani::stub(a5::core::serialization::get_resolution, res_stub)]
pub fn c07_cover_hi() {
    warm();
    let y = any_valid_cell_res(3, 29);
    let iy = ser(&y);
    let p = match cell_to_parent(iy, None) {
        Ok(v) => v,
        Err(_) => {
            assert!(false);
            0
        }
    };
    let ch = match cell_to_children(p, None) {
        Ok(v) => v,
        Err(_) => {
            assert!(false);
            return;
        }
    };
    assert!(ch.len() == 4);
    assert!(ch[(y.s & 3) as usize] == iy);
    kani::cover!(y.resolution == 29);
    kani::cover!(y.resolution == 3 && (y.s & 3) == 3);
    core::mem::forget(ch);
}

/// Same at r = 2 (parent is a quintant cell, 4 children indexed by s).
#[kani::proof]
#[kani::unwind(32)]
#[kani::stub(alloc::fmt::format, fmt_stub)]
#[kani::stub(a5::core::serialization::get_resolution, res_stub)]
pub fn c07_cover_r2() {
    warm();
    let y = any_valid_cell_res(2, 2);
    let iy = ser(&y);
    let p = par(iy, 1);
    let ch = match cell_to_children(p, None) {
        Ok(v) => v,
        Err(_) => {
            assert!(false);
            return;
        }
    };
    assert!(ch.len() == 4);
    assert!(ch[y.s as usize] == iy);
    kani::cover!(y.s == 3 && y.origin_id == 11);
    core::mem::forget(ch);
}

/// ∀ valid cell(1..27): children at r+2 = concatenation of children(child_i, r+2).
#[kani::proof]
#[kani::unwind(32)]
#[kani::stub(alloc::fmt::format, fmt_stub)]
#[kani::stub(a5::core::serialization::get_resolution, res_stub)]
pub fn c07_grand() {
    warm();
    let c = any_valid_cell_res(1, 27);
    let id = ser(&c);
    let t = c.resolution + 2;
    let g = match kids(id, t) {
        Some(v) => v,
        None => return,
    };
    let ch = match kids(id, c.resolution + 1) {
        Some(v) => v,
        None => return,
    };
    assert!(g.len() == 16 && ch.len() == 4);
    let i: usize = kani::any();
    kani::assume(i < 4);
    let gi = match kids(ch[i], t) {
        Some(v) => v,
        None => return,
    };
    assert!(gi.len() == 4);
    let k: usize = kani::any();
    kani::assume(k < 4);
    assert!(gi[k] == g[4 * i + k]);
    kani::cover!(i == 3 && k == 3 && c.resolution == 27);
    core::mem::forget(g);
    core::mem::forget(ch);
    core::mem::forget(gi);
}

/// ∀ −1 ≤ p ≤ c ≤ 29, c−p ≤ 8: get_num_children(p,c) = product of apertures (12, 5, 4, 4, …).
#[kani::proof]
#[kani::unwind(34)]
pub fn c07_fanout() {
    let p: i32 = kani::any();
    let c: i32 = kani::any();
    kani::assume(p >= -1 && c <= 29 && p <= c && c - p <= 8);
    let n = get_num_children(p, c);
    let mut e: u64 = 1;
    let mut r = p;
    while r < c {
        e *= if r == -1 {
            12
        } else if r == 0 {
            5
        } else {
            4
        };
        r += 1;
    }
    assert!(n as u64 == e);
    kani::cover!(p == -1 && c == 7);
    kani::cover!(p == 21 && c == 29);
}
