//! Kani proof harnesses over the real a5 crate (path dependency on /repo's working tree).
//! Driven by /verif/check; see /verif/DESIGN.md.
#![allow(unused)]
#[cfg(kani)]
pub mod common;
#[cfg(kani)]
pub mod c05;
#[cfg(kani)]
pub mod c04;
#[cfg(kani)]
pub mod c06;
#[cfg(kani)]
pub mod c07;
#[cfg(kani)]
pub mod c08;
#[cfg(kani)]
pub mod c09;
#[cfg(kani)]
pub mod c10;
#[cfg(kani)]
pub mod c14;
#[cfg(all(kani, verif_c17))]
pub mod c17;
#[cfg(kani)]
pub mod c18;
#[cfg(kani)]
pub mod c20;
#[cfg(kani)]
pub mod oracles;
