//! Kani proof harnesses over the real a5 crate (path dependency on /repo's working tree).
//! Driven by /verif/check; see /verif/DESIGN.md.
#![allow(unused)]
#[cfg(kani)]
pub mod common;
#[cfg(kani)]
pub mod c05;
#[cfg(kani)]
pub mod oracles;
#[cfg(all(kani, test))]
mod replay;
