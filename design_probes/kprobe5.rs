#![allow(unused)]
#[cfg(kani)]
mod proofs {
    use a5::core::utils::A5Cell;
    use a5::core::serialization::*;
    use a5::LonLat;
    pub fn fmt_stub(_args: core::fmt::Arguments<'_>) -> String { String::new() }
    fn warm() { let _ = a5::core::origin::get_origins(); }

    #[kani::proof]
    #[kani::unwind(34)]
    fn t_num_cells() {
        let r: i32 = kani::any();
        let n = a5::get_num_cells(r);
        if r >= 1 && r <= 27 { assert!(n == 60u64 << (2 * (r as u32 - 1))); }
    }

    #[kani::proof]
    #[kani::unwind(34)]
    fn t_num_cells_inrange() {
        let r: i32 = kani::any();
        kani::assume(r <= 30);
        let n = a5::get_num_cells(r);
        if r >= 1 && r <= 27 { assert!(n == 60u64 << (2 * (r as u32 - 1))); }
    }

    #[kani::proof]
    #[kani::unwind(32)]
    #[kani::stub(alloc::fmt::format, fmt_stub)]
    fn t_parent_total() {
        warm();
        let x: u64 = kani::any();
        let has: bool = kani::any();
        let r: i32 = kani::any();
        let res = cell_to_parent(x, if has { Some(r) } else { None });
        if let Ok(y) = res {
            let ry = get_resolution(y);
            if has { assert!(ry == r); }
            // canonical
            match deserialize(y) { Ok(c) => match serialize(&c) { Ok(z) => assert!(z == y), Err(_) => assert!(false) }, Err(_) => assert!(false) }
        }
    }

    #[kani::proof]
    #[kani::unwind(32)]
    #[kani::stub(alloc::fmt::format, fmt_stub)]
    fn t_deser_total() {
        warm();
        let x: u64 = kani::any();
        if let Ok(c) = deserialize(x) {
            assert!(c.origin_id < 12 && c.segment < 5 && c.resolution >= -1 && c.resolution <= 29);
            match serialize(&c) {
                Ok(z) => { match deserialize(z) { Ok(d) => assert!(d == c), Err(_) => assert!(false) } }
                Err(_) => assert!(false)
            }
        }
    }

    #[kani::proof]
    #[kani::unwind(34)]
    fn t_num_children() {
        let p: i32 = kani::any();
        let c: i32 = kani::any();
        kani::assume(p >= -1 && c <= 29 && p <= c);
        let n = a5::core::cell_info::get_num_children(p, c);
        // spec for bounded fan-out
        if c - p <= 8 {
            let mut e: u64 = 1;
            let mut r = p;
            while r < c { e *= if r == -1 { 12 } else if r == 0 { 5 } else { 4 }; r += 1; }
            assert!(n as u64 == e);
        }
    }
}
