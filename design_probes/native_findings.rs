use a5::core::serialization::*;
use a5::core::utils::A5Cell;
fn main() {
    let mut v = vec![];
    for q in 0..5 { v.push(serialize(&A5Cell{origin_id:1, segment:q, s:0, resolution:1}).unwrap()); }
    v.push(serialize(&A5Cell{origin_id:6, segment:0, s:0, resolution:0}).unwrap());
    let out = a5::compact(&v).unwrap();
    println!("in={:x?}", v); println!("out={:x?}", out);
    let only = a5::compact(&v[..5]).unwrap();
    println!("only quintants -> {:x?}", only);
    // out-of-order parent: face0 quintants 0..3 (codes) + all quintants of face 1
    let mut w = vec![];
    for q in 0..4 { w.push(((q as u64) << 58) | (1u64<<56)); }
    for c in 5..10 { w.push(((c as u64) << 58) | (1u64<<56)); }
    let o2 = a5::compact(&w).unwrap();
    println!("o2={:x?}", o2);
    println!("idem: {:x?}", a5::compact(&o2).unwrap());
    // overflow candidates
    let g: Vec<u64> = (60..64u64).map(|c| (c<<58)|(1u64<<56)).chain(std::iter::once(u64::MAX-1)).collect();
    let r = std::panic::catch_unwind(|| a5::compact(&g));
    println!("garbage compact: {:?}", r.map(|x| x.map(|v| v.len())));
    let r = std::panic::catch_unwind(|| a5::cell_to_children(2, None));
    println!("children(res29 cell 0b10, None): {:?}", r.map(|x| x.map(|v| v.len())));
    let r = std::panic::catch_unwind(|| a5::lonlat_to_cell(a5::LonLat::new(10.0, 20.0), 30));
    println!("lonlat_to_cell(.,30): {:?}", r);
    let r = std::panic::catch_unwind(|| a5::uncompact(&[2], i32::MIN));
    println!("uncompact(.., i32::MIN): {:?}", r.map(|x| x.map(|v| v.len())));
}
