#![allow(unused)]
use a5::core::serialization::*;
use a5::core::utils::A5Cell;

#[cfg(kani)]
mod proofs {
    use super::*;
    use a5::core::origin::*;

    pub fn fmt_stub(_args: core::fmt::Arguments<'_>) -> String { String::new() }
    const MAXN: usize = 5;
    pub fn sort_stub<T: Ord>(v: &mut [T]) {
        let n = v.len();
        let mut i = 1;
        while i < MAXN {
            if i >= n { break; }
            let mut j = i;
            let mut k = 0;
            while k < MAXN {
                if !(j > 0 && v[j - 1] > v[j]) { break; }
                v.swap(j - 1, j); j -= 1; k += 1;
            }
            i += 1;
        }
    }
    fn warm() { let _ = get_origins(); }

    fn any_valid_cell_res(lo: i32, hi: i32) -> A5Cell {
        let resolution: i32 = kani::any();
        kani::assume(resolution >= lo && resolution <= hi);
        let origin_id: u8 = kani::any();
        let segment: usize = kani::any();
        let s: u64 = kani::any();
        kani::assume(origin_id < 12);
        kani::assume(segment < 5);
        if resolution < 2 {
            kani::assume(s == 0);
            if resolution < 1 { kani::assume(segment == 0); }
            if resolution < 0 { kani::assume(origin_id == 0); }
        } else {
            let bits = 2 * (resolution - 1) as u32;
            kani::assume(s < (1u64 << bits));
        }
        A5Cell { origin_id, segment, s, resolution }
    }
    fn ser(c: &A5Cell) -> u64 { match serialize(c) { Ok(v) => v, Err(_) => { assert!(false); 0 } } }

    fn covers(x: u64, y: u64) -> bool {
        let rx = get_resolution(x);
        let ry = get_resolution(y);
        if rx > ry { return false; }
        match cell_to_parent(y, Some(rx)) { Ok(p) => p == x, Err(_) => false }
    }

    fn cover_body<const N: usize>(lo: i32, hi: i32) {
        warm();
        let mut input = [0u64; N];
        let mut i = 0;
        while i < N { input[i] = ser(&any_valid_cell_res(lo, hi)); i += 1; }
        let out = match a5::compact(&input) { Ok(v) => v, Err(_) => { assert!(false); return; } };
        assert!(out.len() <= N);
        let y = ser(&any_valid_cell_res(29, 29));
        let mut cin = false;
        i = 0; while i < N { if covers(input[i], y) { cin = true; } i += 1; }
        let mut cout = false;
        i = 0; while i < N { if i < out.len() && covers(out[i], y) { cout = true; } i += 1; }
        assert!(cin == cout);
        core::mem::forget(out);
    }

    // maximality on non-overlapping low-res sets: no complete quintant group remains
    fn maximal_lowres<const N: usize>() {
        warm();
        let mut input = [0u64; N];
        let mut i = 0;
        while i < N { input[i] = ser(&any_valid_cell_res(0, 1)); i += 1; }
        // non-overlapping & distinct
        i = 0;
        while i < N { let mut j = 0; while j < N { if i != j { kani::assume(!covers(input[i], input[j])); } j += 1; } i += 1; }
        let out = match a5::compact(&input) { Ok(v) => v, Err(_) => { assert!(false); return; } };
        // pick any face; if all five of its quintants are in out -> violation
        let f: u8 = kani::any();
        kani::assume(f < 12);
        let mut cnt = 0;
        let mut q = 0;
        while q < 5 {
            let id = ser(&A5Cell { origin_id: f, segment: q, s: 0, resolution: 1 });
            let mut k = 0; while k < N { if k < out.len() && out[k] == id { cnt += 1; } k += 1; }
            q += 1;
        }
        assert!(cnt < 5);
        core::mem::forget(out);
    }

    // ---- spec-level oracles (loop-free)
    fn spec_res(x: u64) -> i32 {
        // marker = lowest set bit among bits >= 1
        res_stub(x)
    }
    fn spec_valid(x: u64) -> bool {
        const M: u64 = 0x02AA_AAAA_AAAA_AAAA | (1u64 << 56);
        let y = x & M;
        if y == 0 { return false; } // exclude world cell and junk
        let p = y.trailing_zeros();
        if x & ((1u64 << p) - 1) != 0 { return false; } // nothing below the marker
        let top6 = x >> 58;
        if p == 57 { top6 < 12 } else if p == 56 { top6 < 60 && (x >> 57) & 1 == 0 } else { top6 < 60 }
    }
    fn spec_covers(x: u64, y: u64) -> bool {
        const M: u64 = 0x02AA_AAAA_AAAA_AAAA | (1u64 << 56);
        let rx = spec_res(x); let ry = spec_res(y);
        if rx > ry { return false; }
        if rx == -1 { return true; }
        if rx == 0 { let fy = if ry == 0 { y >> 58 } else { (y >> 58) / 5 }; return fy == (x >> 58); }
        let p = (x & M).trailing_zeros();
        let sh = if p == 56 { 58 } else { p + 1 };
        (x >> sh) == (y >> sh)
    }
    fn slim_body<const N: usize>() {
        warm();
        let input: [u64; N] = kani::any();
        let mut i = 0;
        while i < N { kani::assume(spec_valid(input[i])); i += 1; }
        let out = match a5::compact(&input) { Ok(v) => v, Err(_) => { assert!(false); return; } };
        assert!(out.len() <= N);
        let y: u64 = kani::any();
        kani::assume(spec_valid(y) && spec_res(y) == 29);
        let mut cin = false;
        i = 0; while i < N { if spec_covers(input[i], y) { cin = true; } i += 1; }
        let mut cout = false;
        i = 0; while i < N { if i < out.len() && spec_covers(out[i], y) { cout = true; } i += 1; }
        assert!(cin == cout);
        core::mem::forget(out);
    }
    #[kani::proof] #[kani::unwind(14)] #[kani::stub(alloc::fmt::format, fmt_stub)] #[kani::stub(<[u64]>::sort_unstable, sort_stub)]
    fn k_slim3() { slim_body::<3>(); }
    #[kani::proof] #[kani::unwind(14)] #[kani::stub(alloc::fmt::format, fmt_stub)] #[kani::stub(<[u64]>::sort_unstable, sort_stub)]
    fn k_slim5() { slim_body::<5>(); }
    // branch-free oracles for the class r >= 2
    const MK: u64 = 0x00AA_AAAA_AAAA_AAAA; // odd bits 1..55
    fn bf_p(x: u64) -> u32 { (x & (MK | (3u64 << 56))).trailing_zeros() }
    fn bf_valid_hi(x: u64) -> bool {
        let p = bf_p(x);
        let pm = if p > 55 { 55 } else { p }; // clamp to keep shifts in range (cmov-like; one branch)
        (p <= 55) & ((x & ((1u64 << pm) - 1)) == 0) & ((x >> 58) < 60)
    }
    fn bf_covers_hi(x: u64, y: u64) -> bool {
        let px = bf_p(x); let py = bf_p(y);
        let sh = if px > 55 { 56 } else { px + 1 };
        (px >= py) & ((x >> sh) == (y >> sh))
    }
    fn p4_body<const N: usize>() {
        warm();
        let input: [u64; N] = kani::any();
        let mut i = 0;
        while i < N { kani::assume(bf_valid_hi(input[i])); i += 1; }
        let out = match a5::compact(&input) { Ok(v) => v, Err(_) => { assert!(false); return; } };
        assert!(out.len() <= N);
        let y: u64 = kani::any();
        kani::assume(bf_valid_hi(y) & (bf_p(y) == 1));
        let mut cin = false;
        i = 0; while i < N { cin = cin | bf_covers_hi(input[i], y); i += 1; }
        let mut cout = false;
        i = 0; while i < N { if i < out.len() { cout = cout | bf_covers_hi(out[i], y); } i += 1; }
        assert!(cin == cout);
        core::mem::forget(out);
    }
    #[kani::proof] #[kani::unwind(7)] #[kani::stub(alloc::fmt::format, fmt_stub)] #[kani::stub(<[u64]>::sort_unstable, sort_stub)]
    #[kani::stub(a5::core::serialization::get_resolution, res_stub)]
    fn k_p4() { p4_body::<4>(); }

    pub fn sort_noop<T: Ord>(_v: &mut [T]) {}
    fn su_body<const N: usize>() {
        warm();
        unsafe { a5::verif_set::ASSUME_UNIQUE = true; }
        let input: [u64; N] = kani::any();
        let mut i = 0;
        while i < N { kani::assume(spec_valid(input[i])); if i > 0 { kani::assume(input[i - 1] < input[i]); } i += 1; }
        let out = match a5::compact(&input) { Ok(v) => v, Err(_) => { assert!(false); return; } };
        assert!(out.len() <= N);
        let y: u64 = kani::any();
        kani::assume(spec_valid(y) && spec_res(y) == 29);
        let mut cin = false;
        i = 0; while i < N { if spec_covers(input[i], y) { cin = true; } i += 1; }
        let mut cout = false;
        i = 0; while i < N { if i < out.len() && spec_covers(out[i], y) { cout = true; } i += 1; }
        assert!(cin == cout);
        core::mem::forget(out);
    }
    #[kani::proof] #[kani::unwind(14)] #[kani::stub(alloc::fmt::format, fmt_stub)] #[kani::stub(<[u64]>::sort_unstable, sort_noop)]
    #[kani::stub(a5::core::serialization::get_resolution, res_stub)]
    fn k_su4() { su_body::<4>(); }
    #[kani::proof] #[kani::unwind(14)] #[kani::stub(alloc::fmt::format, fmt_stub)] #[kani::stub(<[u64]>::sort_unstable, sort_noop)]
    #[kani::stub(a5::core::serialization::get_resolution, res_stub)]
    fn k_su5() { su_body::<5>(); }

    fn max_lowres_su<const N: usize>() {
        warm();
        unsafe { a5::verif_set::ASSUME_UNIQUE = true; }
        let input: [u64; N] = kani::any();
        let mut i = 0;
        while i < N {
            kani::assume(spec_valid(input[i]) && spec_res(input[i]) <= 1);
            if i > 0 { kani::assume(input[i - 1] < input[i]); }
            i += 1;
        }
        i = 0;
        while i < N { let mut j = 0; while j < N { if i != j { kani::assume(!spec_covers(input[i], input[j])); } j += 1; } i += 1; }
        let out = match a5::compact(&input) { Ok(v) => v, Err(_) => { assert!(false); return; } };
        let f: u64 = kani::any();
        kani::assume(f < 12);
        let mut cnt = 0;
        let mut q = 0u64;
        while q < 5 {
            let id = ((5 * f + q) << 58) | (1u64 << 56);
            let mut k = 0; while k < N { if k < out.len() && out[k] == id { cnt += 1; } k += 1; }
            q += 1;
        }
        assert!(cnt < 5);
        core::mem::forget(out);
    }
    #[kani::proof] #[kani::unwind(14)] #[kani::stub(alloc::fmt::format, fmt_stub)] #[kani::stub(<[u64]>::sort_unstable, sort_noop)]
    fn k_max6su() { max_lowres_su::<6>(); }

    #[kani::proof] #[kani::unwind(14)] #[kani::stub(alloc::fmt::format, fmt_stub)] #[kani::stub(<[u64]>::sort_unstable, sort_noop)]
    fn k_lowres_fg() {
        warm();
        unsafe { a5::verif_set::ASSUME_UNIQUE = true; }
        let f: u8 = kani::any(); let g: u8 = kani::any();
        kani::assume(f < 12 && g < 12 && f != g);
        let fq = get_origins()[f as usize].first_quintant;
        // quintant ids of face f in increasing id order: code n -> segment (n + fq) % 5
        let mut q = [0u64; 5];
        let mut n = 0;
        while n < 5 { q[n] = ser(&A5Cell { origin_id: f, segment: (n + fq) % 5, s: 0, resolution: 1 }); n += 1; }
        let base = ser(&A5Cell { origin_id: g, segment: 0, s: 0, resolution: 0 });
        let mut pos = 0usize;
        n = 0; while n < 5 { if q[n] < base { pos += 1; } n += 1; }
        let mut arr = [0u64; 6];
        let mut k = 0;
        while k < 6 { arr[k] = if k < pos { q[k] } else if k == pos { base } else { q[k - 1] }; k += 1; }
        k = 1; while k < 6 { assert!(arr[k - 1] < arr[k]); k += 1; }
        let out = match a5::compact(&arr) { Ok(v) => v, Err(_) => { assert!(false); return; } };
        // maximal: the five quintants must have been merged into the base cell of f
        let mut cnt = 0;
        n = 0; while n < 5 { let mut k2 = 0; while k2 < 6 { if k2 < out.len() && out[k2] == q[n] { cnt += 1; } k2 += 1; } n += 1; }
        assert!(cnt < 5);
        core::mem::forget(out);
    }

    #[kani::proof] #[kani::unwind(14)] #[kani::stub(alloc::fmt::format, fmt_stub)] #[kani::stub(<[u64]>::sort_unstable, sort_noop)]
    #[kani::stub(a5::core::serialization::get_resolution, res_stub)]
    fn k_su3() { su_body::<3>(); }

    fn max_body<const N: usize>() {
        warm();
        unsafe { a5::verif_set::ASSUME_UNIQUE = true; }
        let input: [u64; N] = kani::any();
        let mut i = 0;
        while i < N { kani::assume(spec_valid(input[i])); if i > 0 { kani::assume(input[i - 1] < input[i]); } i += 1; }
        i = 0;
        while i < N { let mut j = 0; while j < N { if i != j { kani::assume(!spec_covers(input[i], input[j])); } j += 1; } i += 1; }
        let out = match a5::compact(&input) { Ok(v) => v, Err(_) => { assert!(false); return; } };
        let idx: usize = kani::any();
        kani::assume(idx < N && idx < out.len());
        let c = out[idx];
        let r = spec_res(c);
        let mut group: u32 = 0; // how many further siblings are needed / found
        let (is_first, stride, need) = if r >= 2 {
            let st = 1u64 << (2 * (30 - r) as u32);
            ((c & (3 * st)) == 0, st, 3u32)
        } else if r == 1 { (((c >> 58) % 5) == 0, 1u64 << 58, 4u32) } else { (false, 0, 0) };
        if is_first {
            let mut j = 1u64;
            while j <= 4 {
                if (j as u32) <= need {
                    let want = c + j * stride;
                    let mut k = 0; while k < N { if k < out.len() && out[k] == want { group += 1; } k += 1; }
                }
                j += 1;
            }
            assert!(group < need);
        }
        core::mem::forget(out);
    }
    #[kani::proof] #[kani::unwind(14)] #[kani::stub(alloc::fmt::format, fmt_stub)] #[kani::stub(<[u64]>::sort_unstable, sort_noop)]
    #[kani::stub(a5::core::serialization::get_resolution, res_stub)]
    fn k_max4() { max_body::<4>(); }

    pub fn res_stub(x: u64) -> i32 {
        // bits examined by the real loop: odd bits 1..55, then 56, then 57
        const M: u64 = 0x02AA_AAAA_AAAA_AAAA | (1u64 << 56);
        let y = x & M;
        if y == 0 { return -1; }
        let p = y.trailing_zeros();
        if p == 57 { 0 } else if p == 56 { 1 } else { ((59 - p) / 2) as i32 }
    }
    #[kani::proof] #[kani::unwind(33)]
    fn k_res_equiv() { let x: u64 = kani::any(); assert!(res_stub(x) == get_resolution(x)); }
    #[kani::proof] #[kani::unwind(14)] #[kani::stub(alloc::fmt::format, fmt_stub)] #[kani::stub(<[u64]>::sort_unstable, sort_stub)]
    #[kani::stub(a5::core::serialization::get_resolution, res_stub)]
    fn k_slimp3() { slim_body::<3>(); }
    #[kani::proof] #[kani::unwind(14)] #[kani::stub(alloc::fmt::format, fmt_stub)] #[kani::stub(<[u64]>::sort_unstable, sort_stub)]
    #[kani::stub(a5::core::serialization::get_resolution, res_stub)]
    fn k_slimp5() { slim_body::<5>(); }

    #[kani::proof] #[kani::unwind(14)] #[kani::stub(alloc::fmt::format, fmt_stub)] #[kani::stub(<[u64]>::sort_unstable, sort_stub)]
    fn k_cover3() { cover_body::<3>(0, 29); }
    #[kani::proof] #[kani::unwind(14)] #[kani::stub(alloc::fmt::format, fmt_stub)] #[kani::stub(<[u64]>::sort_unstable, sort_stub)]
    fn k_cover5() { cover_body::<5>(0, 29); }
    #[kani::proof] #[kani::unwind(14)] #[kani::stub(alloc::fmt::format, fmt_stub)] #[kani::stub(<[u64]>::sort_unstable, sort_stub)]
    fn k_max6() { maximal_lowres::<6>(); }
}
