#!/bin/bash
# usage: ./kp <harness> [timeout_s] [extra kani args...]
h=$1; t=${2:-300}; shift; shift
export CARGO_NET_OFFLINE=true
mkdir -p logs
start=$(date +%s.%N)
( ulimit -v 24000000; timeout $t cargo kani --harness proofs::$h --exact --target-dir /root/scratch/kt_$h "$@" > logs/$h.log 2>&1 ); rc=$?
end=$(date +%s.%N)
echo "== $h rc=$rc wall=$(echo "$end - $start" | bc)s"
grep -E "VERIFICATION|Verification Time|Status: (FAILURE|ERROR|UNDETERMINED|UNREACHABLE)|Failed Checks|unwinding|Stub:|error|Runtime decision|variables, .* clauses" logs/$h.log | sort | uniq -c | sort -rn | head -20
