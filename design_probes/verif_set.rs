//! Verification-only stand-in for std::collections::HashSet (set semantics, Vec-backed).
/// When true, `insert` trusts the caller that elements are pairwise distinct (harness precondition).
pub static mut ASSUME_UNIQUE: bool = false;
pub struct HashSet<T> { items: Vec<T> }
impl<T: PartialEq> HashSet<T> {
    pub fn new() -> Self { Self { items: Vec::new() } }
    pub fn contains(&self, x: &T) -> bool { let mut i = 0; while i < self.items.len() { if self.items[i] == *x { return true; } i += 1; } false }
    pub fn insert(&mut self, x: T) -> bool { if unsafe { ASSUME_UNIQUE } { self.items.push(x); return true; } if self.contains(&x) { false } else { self.items.push(x); true } }
    pub fn len(&self) -> usize { self.items.len() }
    pub fn is_empty(&self) -> bool { self.items.is_empty() }
}
impl<T: PartialEq> Default for HashSet<T> { fn default() -> Self { Self::new() } }
impl<T: PartialEq> FromIterator<T> for HashSet<T> {
    fn from_iter<I: IntoIterator<Item = T>>(iter: I) -> Self { let mut s = Self::new(); for x in iter { s.insert(x); } s }
}
impl<T> IntoIterator for HashSet<T> { type Item = T; type IntoIter = std::vec::IntoIter<T>; fn into_iter(self) -> Self::IntoIter { self.items.into_iter() } }
