#![allow(unused)]
use a5::core::serialization::*;
use a5::core::utils::A5Cell;

#[cfg(kani)]
mod proofs {
    use super::*;
    use a5::core::hilbert::*;
    use a5::core::origin::*;
    use a5::coordinate_systems::IJ;

    pub fn fmt_stub(_args: core::fmt::Arguments<'_>) -> String { String::new() }

    fn warm() { let _ = get_origins(); }

    fn any_valid_cell_res(lo: i32, hi: i32) -> A5Cell {
        let resolution: i32 = kani::any();
        kani::assume(resolution >= lo && resolution <= hi);
        let origin_id: u8 = kani::any();
        let segment: usize = kani::any();
        let s: u64 = kani::any();
        kani::assume(origin_id < 12);
        kani::assume(segment < 5);
        if resolution < 2 {
            kani::assume(s == 0);
            if resolution < 1 { kani::assume(segment == 0); }
            if resolution < 0 { kani::assume(origin_id == 0); }
        } else {
            let bits = 2 * (resolution - 1) as u32;
            kani::assume(s < (1u64 << bits));
        }
        A5Cell { origin_id, segment, s, resolution }
    }
    fn ser(c: &A5Cell) -> u64 { match serialize(c) { Ok(v) => v, Err(_) => { assert!(false); 0 } } }

    const QF: [usize; 12] = [4, 2, 3, 0, 2, 4, 2, 2, 3, 0, 3, 0];

    // layout spec
    #[kani::proof]
    #[kani::unwind(32)]
    #[kani::stub(alloc::fmt::format, fmt_stub)]
    fn p_layout() {
        warm();
        let c = any_valid_cell_res(-1, 29);
        let id = ser(&c);
        let r = c.resolution;
        let spec: u64 = if r == -1 { 0 } else if r == 0 {
            ((c.origin_id as u64) << 58) | (1u64 << 57)
        } else {
            let code = 5 * (c.origin_id as u64) + ((c.segment + 5 - QF[c.origin_id as usize]) % 5) as u64;
            if r == 1 { (code << 58) | (1u64 << 56) } else {
                let l = (r - 1) as u32;
                (code << 58) | (c.s << (58 - 2 * l)) | (1u64 << (57 - 2 * l))
            }
        };
        assert!(id == spec);
    }

    // parent composition, full range
    #[kani::proof]
    #[kani::unwind(32)]
    #[kani::stub(alloc::fmt::format, fmt_stub)]
    fn p_parent_compose() {
        warm();
        let c = any_valid_cell_res(0, 29);
        let id = ser(&c);
        let a: i32 = kani::any();
        let b: i32 = kani::any();
        kani::assume(-1 <= b && b <= a && a <= c.resolution);
        let pa = match cell_to_parent(id, Some(a)) { Ok(v) => v, Err(_) => { assert!(false); 0 } };
        let pb = match cell_to_parent(pa, Some(b)) { Ok(v) => v, Err(_) => { assert!(false); 0 } };
        let pd = match cell_to_parent(id, Some(b)) { Ok(v) => v, Err(_) => { assert!(false); 0 } };
        assert!(pb == pd);
        assert!(get_resolution(pa) == a);
    }

    // children, bounded depth 2 from res >= 1
    #[kani::proof]
    #[kani::unwind(32)]
    #[kani::stub(alloc::fmt::format, fmt_stub)]
    fn p_children_d2() {
        warm();
        let c = any_valid_cell_res(1, 27);
        let id = ser(&c);
        let d: i32 = kani::any();
        kani::assume(d >= 1 && d <= 2);
        let t = c.resolution + d;
        let ch = match cell_to_children(id, Some(t)) { Ok(v) => v, Err(_) => { assert!(false); return; } };
        let n = if d == 1 { 4 } else { 16 };
        assert!(ch.len() == n);
        let i: usize = kani::any();
        let j: usize = kani::any();
        kani::assume(i < n && j < n && i != j);
        assert!(ch[i] != ch[j]);
        assert!(get_resolution(ch[i]) == t);
        let p = match cell_to_parent(ch[i], Some(c.resolution)) { Ok(v) => v, Err(_) => { assert!(false); 0 } };
        assert!(p == id);
        core::mem::forget(ch);
    }

    #[kani::proof]
    #[kani::unwind(32)]
    #[kani::stub(alloc::fmt::format, fmt_stub)]
    fn p_children_d1() {
        warm();
        let c = any_valid_cell_res(1, 28);
        let id = ser(&c);
        let t = c.resolution + 1;
        let ch = match cell_to_children(id, Some(t)) { Ok(v) => v, Err(_) => { assert!(false); return; } };
        assert!(ch.len() == 4);
        let i: usize = kani::any();
        let j: usize = kani::any();
        kani::assume(i < 4 && j < 4 && i != j);
        assert!(ch[i] != ch[j]);
        assert!(get_resolution(ch[i]) == t);
        let p = match cell_to_parent(ch[i], Some(c.resolution)) { Ok(v) => v, Err(_) => { assert!(false); 0 } };
        assert!(p == id);
        core::mem::forget(ch);
    }

    // order compat
    #[kani::proof]
    #[kani::unwind(32)]
    #[kani::stub(alloc::fmt::format, fmt_stub)]
    fn p_order() {
        warm();
        let a = any_valid_cell_res(2, 29);
        let mut b = any_valid_cell_res(2, 29);
        kani::assume(b.resolution == a.resolution);
        let ia = ser(&a); let ib = ser(&b);
        kani::assume(ia < ib);
        let l: i32 = kani::any();
        kani::assume(l >= 1 && l <= a.resolution);
        let pa = match cell_to_parent(ia, Some(l)) { Ok(v) => v, Err(_) => { assert!(false); 0 } };
        let pb = match cell_to_parent(ib, Some(l)) { Ok(v) => v, Err(_) => { assert!(false); 0 } };
        assert!(pa <= pb);
    }

    // relabelling bijection
    #[kani::proof]
    #[kani::unwind(32)]
    fn p_relabel() {
        warm();
        let f: usize = kani::any();
        let q: usize = kani::any();
        kani::assume(f < 12 && q < 5);
        let o = &get_origins()[f];
        let (seg, ori) = quintant_to_segment(q, o);
        assert!(seg < 5);
        let (q2, ori2) = segment_to_quintant(seg, o);
        assert!(q2 == q && ori2 == ori);
        let (q3, ori3) = segment_to_quintant(q, o);
        let (s3, ori4) = quintant_to_segment(q3, o);
        assert!(s3 == q && ori3 == ori4);
    }

    // hex
    #[kani::proof]
    #[kani::unwind(20)]
    fn p_hex_rt() {
        let v: u64 = kani::any();
        let s = a5::u64_to_hex(v);
        assert!(s.len() >= 1 && s.len() <= 16);
        match a5::hex_to_u64(&s) { Ok(w) => assert!(w == v), Err(_) => assert!(false) }
    }

    #[kani::proof]
    #[kani::unwind(20)]
    fn p_hex_parse() {
        let bytes: [u8; 4] = kani::any();
        let len: usize = kani::any();
        kani::assume(len <= 4);
        kani::assume(bytes[0] < 128 && bytes[1] < 128 && bytes[2] < 128 && bytes[3] < 128);
        let s = unsafe { core::str::from_utf8_unchecked(&bytes[..len]) };
        let r = a5::hex_to_u64(s);
        if len == 0 { assert!(r.is_err()); }
    }

    // trig probe
    #[kani::proof]
    fn p_sin() {
        let x: f64 = kani::any();
        kani::assume(x >= 0.0 && x <= 1.0);
        let y = x.sin();
        assert!(y >= -0.1 && y <= 1.0);
        assert!(x.sin() == y);
    }
    #[kani::proof]
    fn p_sin0() {
        let y = (0.5f64).sin();
        assert!(y > 0.479 && y < 0.48);
    }

    // hilbert exact lattice
    fn any_orientation() -> Orientation {
        let k: u8 = kani::any();
        kani::assume(k < 6);
        match k { 0 => Orientation::UV, 1 => Orientation::VU, 2 => Orientation::UW, 3 => Orientation::WU, 4 => Orientation::VW, _ => Orientation::WV }
    }
    #[kani::proof]
    #[kani::unwind(6)]
    fn p_anchor_n4() {
        let n: usize = 4;
        let s: u64 = kani::any();
        kani::assume(s < (1u64 << (2 * n)));
        let o = any_orientation();
        let a = s_to_anchor(s, n, o);
        assert!(a.k < 4);
        let x = a.offset.x(); let y = a.offset.y();
        assert!(x == x.floor() && y == y.floor());
        core::mem::forget(a);
    }
}
