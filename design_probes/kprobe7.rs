#![allow(unused)]
#[cfg(kani)]
mod proofs {
    use a5::core::serialization::*;
    use a5::core::utils::A5Cell;
    use a5::core::hilbert as h;
    use a5_ref::core::hilbert as hr;
    use a5::LonLat;
    pub fn fmt_stub(_args: core::fmt::Arguments<'_>) -> String { String::new() }
    fn warm() { let _ = a5::core::origin::get_origins(); let _ = a5_ref::core::origin::get_origins(); }

    fn any_valid_cell_res(lo: i32, hi: i32) -> A5Cell {
        let resolution: i32 = kani::any();
        kani::assume(resolution >= lo && resolution <= hi);
        let origin_id: u8 = kani::any();
        let segment: usize = kani::any();
        let s: u64 = kani::any();
        kani::assume(origin_id < 12);
        kani::assume(segment < 5);
        if resolution < 2 {
            kani::assume(s == 0);
            if resolution < 1 { kani::assume(segment == 0); }
            if resolution < 0 { kani::assume(origin_id == 0); }
        } else {
            let bits = 2 * (resolution - 1) as u32;
            kani::assume(s < (1u64 << bits));
        }
        A5Cell { origin_id, segment, s, resolution }
    }
    fn ser(c: &A5Cell) -> u64 { match serialize(c) { Ok(v) => v, Err(_) => { assert!(false); 0 } } }
    fn par(x: u64, r: i32) -> u64 { match cell_to_parent(x, Some(r)) { Ok(v) => v, Err(_) => { assert!(false); 0 } } }

    // ---- C06 differential
    #[kani::proof] #[kani::unwind(32)] #[kani::stub(alloc::fmt::format, fmt_stub)]
    fn d_decode() {
        warm();
        let x: u64 = kani::any();
        let a = deserialize(x);
        let b = a5_ref::core::serialization::deserialize(x);
        match (a, b) {
            (Ok(c), Ok(d)) => assert!(c.origin_id == d.origin_id && c.segment == d.segment && c.s == d.s && c.resolution == d.resolution),
            (Err(_), Err(_)) => {},
            _ => assert!(false),
        }
    }
    fn ori(k: u8) -> (h::Orientation, hr::Orientation) {
        match k { 0 => (h::Orientation::UV, hr::Orientation::UV), 1 => (h::Orientation::VU, hr::Orientation::VU), 2 => (h::Orientation::UW, hr::Orientation::UW), 3 => (h::Orientation::WU, hr::Orientation::WU), 4 => (h::Orientation::VW, hr::Orientation::VW), _ => (h::Orientation::WV, hr::Orientation::WV) }
    }
    fn anchor_body(n: usize) {
        let s: u64 = kani::any();
        kani::assume(s < (1u64 << (2 * n)));
        let k: u8 = kani::any(); kani::assume(k < 6);
        let (o, or) = ori(k);
        let a = h::s_to_anchor(s, n, o);
        let b = hr::s_to_anchor(s, n, or);
        assert!(a.k == b.k && a.flips == b.flips);
        assert!(a.offset.x().to_bits() == b.offset.x().to_bits() && a.offset.y().to_bits() == b.offset.y().to_bits());
    }
    #[kani::proof] #[kani::unwind(10)] fn d_anchor6() { anchor_body(6); }
    #[kani::proof] #[kani::unwind(14)] fn d_anchor10() { anchor_body(10); }
    fn locate_body(n: usize) {
        let _ = h::ij_to_s(a5::coordinate_systems::IJ::new(0.25, 0.25), 1, h::Orientation::UV);
        let _ = hr::ij_to_s(a5_ref::coordinate_systems::IJ::new(0.25, 0.25), 1, hr::Orientation::UV);
        let x: f64 = kani::any(); let y: f64 = kani::any();
        let m = (1u64 << n) as f64;
        kani::assume(x >= -1.0 && x <= m + 1.0 && y >= -1.0 && y <= m + 1.0);
        let k: u8 = kani::any(); kani::assume(k < 6);
        let (o, or) = ori(k);
        let a = h::ij_to_s(a5::coordinate_systems::IJ::new(x, y), n, o);
        let b = hr::ij_to_s(a5_ref::coordinate_systems::IJ::new(x, y), n, or);
        assert!(a == b);
    }
    #[kani::proof] #[kani::unwind(10)] fn d_locate6() { locate_body(6); }

    // ---- C20
    #[kani::proof] #[kani::unwind(32)] #[kani::stub(alloc::fmt::format, fmt_stub)]
    fn o_interval() {
        warm();
        let c = any_valid_cell_res(1, 29);
        let d1 = any_valid_cell_res(1, 29);
        let d2 = any_valid_cell_res(1, 29);
        let x = any_valid_cell_res(1, 29);
        kani::assume(d1.resolution >= c.resolution && d2.resolution >= c.resolution);
        let ic = ser(&c); let i1 = ser(&d1); let i2 = ser(&d2); let ix = ser(&x);
        kani::assume(par(i1, c.resolution) == ic && par(i2, c.resolution) == ic);
        kani::assume(i1 <= ix && ix <= i2);
        assert!(x.resolution >= c.resolution);
        if x.resolution >= c.resolution { assert!(par(ix, c.resolution) == ic); }
    }

    // ---- C14 lookup args, concrete r
    pub fn estimate_stub(_ll: LonLat, resolution: i32) -> Result<A5Cell, String> {
        let origin_id: u8 = kani::any();
        let segment: usize = kani::any();
        let s: u64 = kani::any();
        kani::assume(origin_id < 12 && segment < 5);
        if resolution >= 2 && resolution <= 32 {
            let bits = 2 * (resolution - 1) as u32;
            if bits < 64 { kani::assume(s < (1u64 << bits)); }
        } else { kani::assume(s == 0); }
        Ok(A5Cell { origin_id, segment, s, resolution })
    }
    pub fn contains_stub(_c: &A5Cell, _p: LonLat) -> Result<f64, String> {
        let d: f64 = kani::any();
        kani::assume(d == d);
        Ok(d)
    }
    fn lookup_body(r: i32) {
        warm();
        let lon: f64 = kani::any(); let lat: f64 = kani::any();
        kani::assume(lon.is_finite() && lat.is_finite());
        match a5::lonlat_to_cell(LonLat::new(lon, lat), r) {
            Ok(id) => { assert!(a5::get_resolution(id) == r); }
            Err(_) => { assert!(r < -1 || r > 29); }
        }
    }
    #[kani::proof] #[kani::unwind(32)] #[kani::stub(alloc::fmt::format, fmt_stub)]
    #[kani::stub(a5::core::cell::lonlat_to_estimate, estimate_stub)] #[kani::stub(a5::core::cell::a5cell_contains_point, contains_stub)]
    fn l_r29() { lookup_body(29); }
    #[kani::proof] #[kani::unwind(32)] #[kani::stub(alloc::fmt::format, fmt_stub)]
    #[kani::stub(a5::core::cell::lonlat_to_estimate, estimate_stub)] #[kani::stub(a5::core::cell::a5cell_contains_point, contains_stub)]
    fn l_r30() { lookup_body(30); }
    #[kani::proof] #[kani::unwind(32)] #[kani::stub(alloc::fmt::format, fmt_stub)]
    #[kani::stub(a5::core::cell::lonlat_to_estimate, estimate_stub)] #[kani::stub(a5::core::cell::a5cell_contains_point, contains_stub)]
    fn l_rm2() { lookup_body(-2); }

    pub fn contains_hit_stub(_c: &A5Cell, _p: LonLat) -> Result<f64, String> { Ok(1.0) }
    #[kani::proof] #[kani::unwind(32)] #[kani::stub(alloc::fmt::format, fmt_stub)]
    #[kani::stub(a5::core::cell::lonlat_to_estimate, estimate_stub)] #[kani::stub(a5::core::cell::a5cell_contains_point, contains_hit_stub)]
    fn l_hit_anyr() {
        warm();
        let r: i32 = kani::any();
        let lon: f64 = kani::any(); let lat: f64 = kani::any();
        kani::assume(lon.is_finite() && lat.is_finite());
        kani::assume(r != 30 && r >= -1); // exclude the two known classes to see what else there is
        match a5::lonlat_to_cell(LonLat::new(lon, lat), r) {
            Ok(id) => { assert!(a5::get_resolution(id) == r); }
            Err(_) => { assert!(r < -1 || r > 29); }
        }
    }
    // ---- C04 table
    #[kani::proof] #[kani::unwind(34)]
    fn a_table() {
        let r: i32 = kani::any();
        kani::assume(r >= 0 && r <= 29);
        let n: f64 = if r == 0 { 12.0 } else { 60.0 * ((1u64 << (2 * (r as u32 - 1))) as f64) };
        let total = a5::cell_area(-1);
        let d = a5::cell_area(r) * n - total;
        assert!(d <= 1e-9 * total && d >= -1e-9 * total);
    }
}
