#![allow(unused)]
#[cfg(kani)]
mod proofs {
    use a5::core::serialization::*;
    use a5::core::utils::A5Cell;
    pub fn fmt_stub(_args: core::fmt::Arguments<'_>) -> String { String::new() }
    fn warm() { let _ = a5::core::origin::get_origins(); }
    fn any_valid_cell_res(lo: i32, hi: i32) -> A5Cell {
        let resolution: i32 = kani::any();
        kani::assume(resolution >= lo && resolution <= hi);
        let origin_id: u8 = kani::any();
        let segment: usize = kani::any();
        let s: u64 = kani::any();
        kani::assume(origin_id < 12);
        kani::assume(segment < 5);
        if resolution < 2 {
            kani::assume(s == 0);
            if resolution < 1 { kani::assume(segment == 0); }
            if resolution < 0 { kani::assume(origin_id == 0); }
        } else {
            let bits = 2 * (resolution - 1) as u32;
            kani::assume(s < (1u64 << bits));
        }
        A5Cell { origin_id, segment, s, resolution }
    }
    fn ser(c: &A5Cell) -> u64 { match serialize(c) { Ok(v) => v, Err(_) => { assert!(false); 0 } } }
    fn par(x: u64, r: i32) -> u64 { match cell_to_parent(x, Some(r)) { Ok(v) => v, Err(_) => { assert!(false); 0 } } }

    const M: u64 = 0x02AA_AAAA_AAAA_AAAA | (1u64 << 56);
    fn spec_res(x: u64) -> i32 { let y = x & M; if y == 0 { return -1; } let p = y.trailing_zeros(); if p == 57 { 0 } else if p == 56 { 1 } else { ((59 - p) / 2) as i32 } }
    fn spec_valid(x: u64) -> bool {
        let y = x & M;
        if y == 0 { return x == 0; }
        let p = y.trailing_zeros();
        if x & ((1u64 << p) - 1) != 0 { return false; }
        let top6 = x >> 58;
        if p == 57 { top6 < 12 } else if p == 56 { top6 < 60 && (x >> 57) & 1 == 0 } else { top6 < 60 }
    }
    fn spec_covers(x: u64, y: u64) -> bool {
        let rx = spec_res(x); let ry = spec_res(y);
        if rx > ry { return false; }
        if rx == -1 { return true; }
        if rx == 0 { let fy = if ry == 0 { y >> 58 } else { (y >> 58) / 5 }; return fy == (x >> 58); }
        let p = (x & M).trailing_zeros();
        let sh = if p == 56 { 58 } else { p + 1 };
        (x >> sh) == (y >> sh)
    }

    #[kani::proof] #[kani::unwind(32)] #[kani::stub(alloc::fmt::format, fmt_stub)]
    fn q_valid_equiv() {
        warm();
        let x: u64 = kani::any();
        let real = match deserialize(x) { Ok(c) => match serialize(&c) { Ok(z) => z == x, Err(_) => false }, Err(_) => false };
        assert!(real == spec_valid(x));
    }
    #[kani::proof] #[kani::unwind(32)] #[kani::stub(alloc::fmt::format, fmt_stub)]
    fn q_covers_equiv() {
        warm();
        let x: u64 = kani::any(); let y: u64 = kani::any();
        kani::assume(spec_valid(x) && spec_valid(y));
        let rx = get_resolution(x); let ry = get_resolution(y);
        let real = if rx > ry { false } else { match cell_to_parent(y, Some(rx)) { Ok(p) => p == x, Err(_) => false } };
        assert!(real == spec_covers(x, y));
    }
    #[kani::proof] #[kani::unwind(32)] #[kani::stub(alloc::fmt::format, fmt_stub)]
    fn q_desc_order() {
        warm();
        let a = any_valid_cell_res(2, 29);
        let b = any_valid_cell_res(2, 29);
        kani::assume(a.resolution == b.resolution);
        let da = any_valid_cell_res(2, 29); let db = any_valid_cell_res(2, 29);
        kani::assume(da.resolution >= a.resolution && db.resolution >= a.resolution);
        let ia = ser(&a); let ib = ser(&b); let ida = ser(&da); let idb = ser(&db);
        kani::assume(ia < ib);
        kani::assume(par(ida, a.resolution) == ia && par(idb, a.resolution) == ib);
        assert!(ida < idb);
    }
    #[kani::proof] #[kani::unwind(32)] #[kani::stub(alloc::fmt::format, fmt_stub)]
    fn q_sibling_gap() {
        warm();
        let a = any_valid_cell_res(2, 29);
        let x = any_valid_cell_res(2, 29);
        kani::assume(a.resolution == x.resolution);
        let ia = ser(&a); let ix = ser(&x);
        kani::assume(ia < ix);
        assert!(ix - ia >= get_stride(a.resolution));
        assert!(is_first_child(ia, None) == (a.s & 3 == 0));
        assert!(is_first_child(ia, Some(a.resolution)) == (a.s & 3 == 0));
    }
    #[kani::proof] #[kani::unwind(32)] #[kani::stub(alloc::fmt::format, fmt_stub)]
    fn q_injective() {
        warm();
        let a = any_valid_cell_res(-1, 29);
        let b = any_valid_cell_res(-1, 29);
        kani::assume(!(a.origin_id == b.origin_id && a.segment == b.segment && a.s == b.s && a.resolution == b.resolution));
        assert!(ser(&a) != ser(&b));
    }
    #[kani::proof] #[kani::unwind(32)] #[kani::stub(alloc::fmt::format, fmt_stub)]
    fn r_cover() {
        warm();
        let y = any_valid_cell_res(2, 29);
        let iy = ser(&y);
        let p = match cell_to_parent(iy, None) { Ok(v) => v, Err(_) => { assert!(false); 0 } };
        let ch = match cell_to_children(p, None) { Ok(v) => v, Err(_) => { assert!(false); return; } };
        if y.resolution >= 3 { assert!(ch.len() == 4); assert!(ch[(y.s & 3) as usize] == iy); }
        core::mem::forget(ch);
    }
    #[kani::proof] #[kani::unwind(32)] #[kani::stub(alloc::fmt::format, fmt_stub)]
    fn r_uncompact1() {
        warm();
        let c = any_valid_cell_res(1, 28);
        let id = ser(&c);
        let t = c.resolution + 1;
        let a = match a5::uncompact(&[id], t) { Ok(v) => v, Err(_) => { assert!(false); return; } };
        let b = match cell_to_children(id, Some(t)) { Ok(v) => v, Err(_) => { assert!(false); return; } };
        assert!(a.len() == 4 && b.len() == 4);
        let i: usize = kani::any(); kani::assume(i < 4);
        assert!(a[i] == b[i]);
        assert!(a5::uncompact(&[id], c.resolution - 1).is_err());
        core::mem::forget(a); core::mem::forget(b);
    }
    #[kani::proof] #[kani::unwind(14)]
    fn q_frame() {
        warm();
        let o = a5::core::origin::get_origins();
        let i: usize = kani::any(); let j: usize = kani::any();
        kani::assume(i < 12 && j < 12);
        fn centre(q: [f64; 4]) -> [f64; 3] {
            // rotate (0,0,1) by unit quaternion [x,y,z,w]
            let (x, y, z, w) = (q[0], q[1], q[2], q[3]);
            [2.0 * (x * z + w * y), 2.0 * (y * z - w * x), 1.0 - 2.0 * (x * x + y * y)]
        }
        let a = centre(o[i].quat); let b = centre(o[j].quat);
        let d = a[0] * b[0] + a[1] * b[1] + a[2] * b[2];
        let c = 0.4472135954999579_f64;
        let near = |v: f64, t: f64| (v - t) < 1e-12 && (t - v) < 1e-12;
        assert!(near(d, 1.0) || near(d, -1.0) || near(d, c) || near(d, -c));
        if i == j { assert!(near(d, 1.0)); } else { assert!(!near(d, 1.0)); }
    }
}
