#![allow(unused)]
#[cfg(kani)]
mod proofs {
    pub fn fmt_stub(_args: core::fmt::Arguments<'_>) -> String { String::new() }

    #[kani::proof]
    #[kani::unwind(18)]
    fn x_hex_fmt() {
        let v: u64 = kani::any();
        let s = a5::u64_to_hex(v);
        let b = s.as_bytes();
        let n = b.len();
        assert!(n >= 1 && n <= 16);
        let mut acc: u64 = 0;
        let mut i = 0;
        while i < n {
            let c = b[i];
            let d = if c >= b'0' && c <= b'9' { c - b'0' } else if c >= b'a' && c <= b'f' { c - b'a' + 10 } else { assert!(false); 0 };
            if i == 0 && n > 1 { assert!(d != 0); }
            acc = (acc << 4) | d as u64;
            i += 1;
        }
        assert!(acc == v);
        core::mem::forget(s);
    }

    fn oracle(b: &[u8]) -> Option<u64> {
        let mut i = 0;
        if b.len() == 0 { return None; }
        if b[0] == b'+' { i = 1; if b.len() == 1 { return None; } }
        let mut acc: u128 = 0;
        while i < b.len() {
            let c = b[i];
            let d = if c >= b'0' && c <= b'9' { c - b'0' } else if c >= b'a' && c <= b'f' { c - b'a' + 10 } else if c >= b'A' && c <= b'F' { c - b'A' + 10 } else { return None; };
            acc = (acc << 4) | d as u128;
            if acc > u64::MAX as u128 { return None; }
            i += 1;
        }
        Some(acc as u64)
    }

    fn parse_body<const N: usize>() {
        let bytes: [u8; N] = kani::any();
        let len: usize = kani::any();
        kani::assume(len <= N);
        let mut i = 0;
        while i < N { kani::assume(bytes[i] < 128); i += 1; }
        let s = unsafe { core::str::from_utf8_unchecked(&bytes[..len]) };
        let r = a5::hex_to_u64(s);
        let o = oracle(&bytes[..len]);
        match (r, o) { (Ok(a), Some(b)) => assert!(a == b), (Err(_), None) => {}, _ => assert!(false) }
    }
    #[kani::proof] #[kani::unwind(6)] #[kani::stub(alloc::fmt::format, fmt_stub)] fn x_parse4() { parse_body::<4>(); }
    #[kani::proof] #[kani::unwind(20)] #[kani::stub(alloc::fmt::format, fmt_stub)] fn x_parse18() { parse_body::<18>(); }
}
#[cfg(kani)]
mod proofs2 {
    #[kani::proof]
    #[kani::unwind(32)]
    fn g_getres() {
        let x: u64 = kani::any();
        let r = a5::get_resolution(x);
        assert!(r >= -1 && r <= 29);
        // marker spec: lowest set bit among bits >= 1 determines r
    }
}
