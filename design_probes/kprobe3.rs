#![allow(unused)]
#[cfg(kani)]
mod proofs {
    use a5::core::hilbert::*;
    use a5::coordinate_systems::IJ;

    fn any_orientation() -> Orientation {
        let k: u8 = kani::any();
        kani::assume(k < 6);
        match k { 0 => Orientation::UV, 1 => Orientation::VU, 2 => Orientation::UW, 3 => Orientation::WU, 4 => Orientation::VW, _ => Orientation::WV }
    }
    const A: f64 = 0.5158673183473928;
    const B: f64 = 0.1486546142219273;
    const C: f64 = 0.4841326816526072;
    const D: f64 = 0.8513453857780727;
    // [f0 idx][f1 idx][k] ; idx 0 = NO(1), 1 = YES(-1)
    const CENT: [[[(f64, f64); 4]; 2]; 2] = [
        [ [(A,B),(A,B),(B,A),(B,A)], [(-B,C),(-A,D),(-A,D),(-B,C)] ],
        [ [(B,-C),(A,-D),(A,-D),(B,-C)], [(-A,-B),(-A,-B),(-B,-A),(-B,-A)] ],
    ];
    fn body(n: usize) { body_o(n, any_orientation()); }
    fn body_o(n: usize, o: Orientation) {
        // warm lazy_static tables
        let _ = ij_to_s(IJ::new(0.25, 0.25), 1, Orientation::UV);
        let s: u64 = kani::any();
        kani::assume(s < (1u64 << (2 * n)));
        let a = s_to_anchor(s, n, o);
        let f0 = if a.flips[0] == NO { 0 } else { 1 };
        let f1 = if a.flips[1] == NO { 0 } else { 1 };
        let c = CENT[f0][f1][a.k as usize];
        let dx: f64 = kani::any();
        let dy: f64 = kani::any();
        let eps = 1.0 / 65536.0;
        kani::assume(dx >= -eps && dx <= eps && dy >= -eps && dy <= eps);
        let px = a.offset.x() + c.0 + dx;
        let py = a.offset.y() + c.1 + dy;
        // centre inside the quintant triangle (ij coords)
        let m = (1u64 << n) as f64;
        assert!(px > 0.0 && py > 0.0 && px + py < m);
        let s2 = ij_to_s(IJ::new(px, py), n, o);
        assert!(s2 == s);
    }
    #[kani::proof] #[kani::unwind(10)] fn h_n2() { body(2); }
    #[kani::proof] #[kani::unwind(10)] fn h_n4() { body(4); }
    #[kani::proof] #[kani::unwind(10)] fn h_n6() { body(6); }
    #[kani::proof] #[kani::unwind(10)] fn h_n8() { body(8); }
    #[kani::proof] #[kani::unwind(10)] fn h_n8_uv() { body_o(8, Orientation::UV); }
    #[kani::proof] #[kani::unwind(10)] fn h_n8_wu() { body_o(8, Orientation::WU); }
}
